#!/usr/bin/env python3
"""Regenerates /verif/MANIFEST.json from the table below."""
import json, os
VERIF = os.path.dirname(os.path.dirname(os.path.abspath(__file__)))

LEVEL_NOTE_COMMON = ("Trusted: Coq 8.16.1 kernel; hand-written Gallina model of the anchored code, tied to /repo by the "
                     "correspondence check of each run (Rust harness vs extracted OCaml model on the same inputs); "
                     "extraction (ExtrOcamlBasic only), OCaml driver, Python generators/comparison. ")

CHECKS = {
    "C19": dict(
        text="Theorems (Coq, all capacities 2^k, all histories, all sequence numbers): the bit map refines a set of residues "
             "(last addressed op decides, frame, commutation of distinct residues, every word access in bounds). "
             "Model tied to bit_map.rs by differential runs (exhaustive residue pairs for small capacities + random histories), against the default build and a build with the crate feature unsafe.",
        note=LEVEL_NOTE_COMMON + "Axioms: none (Closed under the global context). Atomic RMWs modelled as whole-word updates; "
             "concurrency enters only through the commutation theorem.",
        technique="Coq proof (refinement to residue set by induction over histories) + model/implementation differential correspondence",
        design="§7 C19"),
    "C07": dict(
        text="Theorems (Coq, every SIZE>=1, every CAPACITY>SIZE incl. CAPACITY=SIZE+1 and <2*SIZE, every push history): ArrayStorage, "
             "UnsafeArrayStorage and UnsafeVectorStorage simulate the abstract window lastn N h, so filled/empty/first/last/slice/vec/arr equal the spec "
             "after every push and the back-ends agree; UnsafeVectorStorage's copy_nonoverlapping never overlaps for multiple>=2. Safe VectorStorage: proved up to the "
             "capacity, refuted beyond (known finding D6). Model tied to the four storages by differential runs after every push (release, unsafe release, unsafe debug builds). LARGE windows (thousands of elements, many rewinds; byte counts above 64 KiB) are judged by the closed form window_is_last_n, which is a theorem for every size.",
        note=LEVEL_NOTE_COMMON + "Axioms: none. copy_within/ptr::copy modelled as list memmove; the 16-byte chunk loop of the unsafe array as one memmove "
             "(exercised with 1/2/4/8/12/16-byte element types). VectorStorage beyond capacity is a listed known finding (test-pinned defect).",
        technique="Coq proof (simulation relation to lastn N h, induction over push histories) + model/implementation differential correspondence",
        design="§7 C07"),
    "C17": dict(
        text="Theorems (Coq, every dimension kind 1..4, all extents, all points, all values, all store/load sequences): get(set g p v) p = v, "
             "other cells unchanged, fresh grid reads default, a load returns the most recent store (run_model = run_spec), out-of-bounds by the code's per-axis "
             "condition panics; proved once for a generic array level and instantiated four times with the code's coordinate order. Model tied to the safe and the unsafe "
             "Grid builds by differential runs (all-pairs sweeps on 32 shapes, random sequences, OOB), also with an element type whose Default is not the all-zero bit pattern, and on grids that are used on after caught out-of-bounds panics.",
        note=LEVEL_NOTE_COMMON + "Axioms: none. Nested fixed-size arrays modelled as nested lists; RefCell / raw-pointer write as plain update; single-threaded.",
        technique="Coq proof (generic level laws lifted through 4 nesting levels; induction over op sequences) + differential correspondence (safe and unsafe builds)",
        design="§7 C17"),
    "C16": dict(
        text="Theorems (Coq, all four node kinds, update and adjust, every node value, every grid content): the model of the eight functions satisfies the whole property "
             "(Ok => every owned coordinate = new / old+delta, others untouched; Err => node unchanged; inadmissible => Err; admissible => Ok). The same executable predicate "
             "(adj_check) is the oracle applied to the implementation's output; correspondence by exhaustive sign patterns {-,0,+}^k x {-,0,+}^k. "
             "AT THE EDGE OF THE MACHINE TYPE (Adjustable/Overflow.v): the release build's wrapping addition is modelled (adjust_w), proved to be the unbounded model whenever all sums old+delta fit i64 "
             "(so the property holds there), compared with the implementation on values around +-2^63 and +-2^62, and the property is REFUTED outside the range (known finding D11: -5 adjusted by -(2^63-1) succeeds).",
        note=LEVEL_NOTE_COMMON + "Axioms: none. Integers modelled as Z for the property theorems (values whose sums fit), as wrapped i64 for the release model at the edge; grid reads go through the C17 grid model with the exact PointIndex the code builds.",
        technique="Coq proof (case analysis over straight-line model, checker soundness by construction) + exhaustive differential correspondence + proved checker as oracle",
        design="§7 C16"),
    "C08": dict(
        text="Theorems (Coq, every operation from every reachable state, hence every history): the UltraMatrixGraph model (petgraph IdStorage allocator with LIFO id reuse, "
             "adjacency cells, nb_edges counter, node_map, index_map, root_index) keeps its representation invariant and refines a plain directed-graph spec "
             "(same return values, same full observation); the spec's clauses (fresh index, value stable until removed, failure iff absent/duplicate and then no change, "
             "exact edge-set effect of every op) are proved. The spec checker proved to accept the model is applied to the implementation's observed runs. Bulk insertion has a closed form proved for EVERY n "
             "(Graph/BulkAdd.v: the n-th add returns n-1, exactly the indices below n exist with their values, size n), which is the oracle of the LARGE histories (up to 1.4*10^5 nodes: index width, storage growth).",
        note=LEVEL_NOTE_COMMON + "Axioms: none. petgraph 0.7.1 MatrixGraph behaviour is modelled (not verified) and correspondence-tested; hash iteration order is removed by sorting.",
        technique="Coq proof (refinement with representation invariant, induction over histories) + differential correspondence + proved spec checker as oracle",
        design="§7 C08"),
    "C15": dict(
        category="translation_validation",
        text="petgraph's astar is a dependency and is not modelled. Theorems (Coq, all weighted digraphs, all node pairs, all answers): the checker check_answer is sound - "
             "an accepted Some(p) starts at s, ends at t, follows existing edges in direction and no path of any length is lighter; an accepted None means an end is absent or t "
             "is unreachable. Every answer of the implementation for every ordered pair of every generated graph (built through add/remove histories, cycles, zero weights, ties) "
             "is validated by the extracted checker on the specification graph of the run. The checker is also COMPLETE (Graph/BellmanFord.v): its reference distances are closed after |nodes| rounds for every graph "
             "whose edges join nodes (every graph the store model can reach), so it accepts every minimum-weight path and every correct None: it decides the property exactly. Edge weights up to 2^64-1 (path sums beyond u64: defect D12, fixed). LONG paths (chains of 259 .. 2051 edges beside short-cuts heavier by exactly 1), beyond what the extracted checker labels in reasonable time, are judged against the optimum known by construction.",
        note=LEVEL_NOTE_COMMON + "Axioms: none. The unbounded theorem is about the checker; the implementation is covered per explored input (translation validation). "
             "Soundness and completeness of the checker are both theorems.",
        technique="Coq-proved sound and complete optimality checker (closed-labelling argument; Bellman-Ford convergence by simple-walk extraction) applied to every implementation answer (translation validation)",
        design="§7 C15"),
    "C09": dict(
        text="Theorems (Coq, every operation from every reachable state, hence every interleaving): base operations change only the base graph, extra-context operations only the "
             "selected extra graph (all others stay EQUAL); with nothing selected every extra mutator fails without change and readers report nothing; set_current succeeds iff "
             "id <= count; add_new returns count+1; the two index maps are independent last-write-wins maps; every step refines an abstract context whose component graphs are C08's "
             "directed-graph spec (so lookups/relations are faithful), and the spec checker proved to accept the model is applied to the implementation's observed runs of ALL contexts. Bulk insertion "
             "through the Context API has a closed form proved for EVERY n (Context/Bulk.v: base context, and a new extra context with the base staying empty): the oracle of the LARGE histories (up to 1.4*10^5 contextoids). The id of the Context itself (unrelated to the extra-context ids) is varied: 0, 1, ids equal to / above the number of extra contexts, 2^63+7. A creation that panics (capacity overflow, caught) inside a history must answer no and change nothing.",
        note=LEVEL_NOTE_COMMON + "Axioms: none. Component graphs are C08's UltraGraph model; HashMaps as association lists; contextoids represented by their id.",
        technique="Coq proof (frame lemmas + refinement to abstract context, induction over histories) + differential correspondence + proved spec checker as oracle",
        design="§7 C09"),
    "C18": dict(
        text="Theorems (Coq, every collection content, every verification history): filters return exactly the members whose predicate holds and as many as the count reports; "
             "complementary filters partition the collection; counts are counts and percentages are count/size on the documented scale (as binary64 expressions); the all-X loops are "
             "conjunctions; no member is both inferable and inverse-inferable (so non-inferable is always empty); an assumption is tested from its first verification on, valid only "
             "after a verification returned true, and verify returns the function's verdict. The member predicates (total_cmp, truncating 4-decimal comparison, >=, ==) are modelled "
             "on binary64 with SpecFloat and correspondence-tested on boundary values; the oracle recomputes every aggregate from the member predicates the implementation reports. Collections of more than 65 536 members, one per counted class in which 99 % of the members belong to that class (so that every count passes 65 536), in the Vec container (thorough: all containers). Observation members are also judged against the documented member predicate itself (observation >= threshold and observed_effect == effect, evaluated with the host's IEEE doubles), with both zeros on either side. NaN thresholds and observations are generated.",
        note=LEVEL_NOTE_COMMON + "Axioms: none for all theorems but two: C18_all_satisfy_gives_exactly_100 / C18_none_satisfies_gives_exactly_0 (percentage exactly 100 / 0 for every collection of 1..2^64 members) use Flocq's specification of IEEE division and depend on the standard library's classical real-number axioms ClassicalDedekindReals.sig_not_dec, ClassicalDedekindReals.sig_forall_dec, FunctionalExtensionality.functional_extensionality_dep, Classical_Prop.classic (Print Assumptions; allow-list of this check). binary64 via Coq.Floats.SpecFloat (pure Z arithmetic); NaN payloads not represented.",
        technique="Coq proof (list-level counting laws, induction over verification histories) + differential correspondence on boundary floats + law checker as oracle",
        design="§7 C18"),
    "C01": dict(
        text="Theorem (Coq, every graph of singleton causaloids on which the traversal terminates, every id / function / observation assignment, id or index routing, every live start): "
             "reasoning returns true exactly when every causaloid reachable from the start evaluates true, false when one is false and none errors, and error-or-false (never true) when a "
             "reachable causal function errors. The model is the code's traversal (children in ascending index order, no visited set, stop index = node count); it is tied to the code by "
             "comparing verdict, the exact sequence of causal-function calls with their observations, and is_active of every node; the oracle is an independent closure-based conjunction. "
             "A concurrent phase (two threads reasoning at the same time over one shared graph with different data, 10^6 calls per run) requires every verdict to be the model's verdict for that thread's data (stress, schedule chosen by the OS). LARGE graphs (chains of 65 .. 1200 causaloids with a single false member at a chosen index or none, also through a wrapping causaloid; graphs of 70 000 / 140 000 causaloids whose reachable part is small) are judged by the closed form the theorem gives for them (the conjunction; number of evaluations), and every observation carries big-index alias probes (i + 2^16, i + k*2^32 must not address member i).",
        note=LEVEL_NOTE_COMMON + "Axioms: none. Termination (acyclicity) enters as 'the run does not exhaust its fuel'. The explicit iterator stack is modelled as recursion.",
        technique="Coq proof (induction on the traversal, reachability closure) + differential correspondence incl. call log + extracted reachability oracle",
        design="§7 C01"),
    "C02": dict(
        text="Theorems (Coq, every nesting tree of singletons / collections / graphs, any depth and fan-out, every observation vector): a wrapping causaloid evaluates as direct reasoning "
             "over what it wraps (collection: positional data, graph: from the root), in every position; for every run the verdict is the conjunction of the singleton verdicts it "
             "evaluated (true: all true; false: last false, all earlier true); a contextual singleton is evaluated against exactly its own context. Correspondence on generated trees to "
             "depth 4 incl. the call log; oracles: trace-conjunction and wrapped == direct on the implementation's own output. Long chains (65 .. 1200 causaloids) also evaluated through a wrapping causaloid, and graphs of 70 000 causaloids, against the closed-form conjunction.",
        note=LEVEL_NOTE_COMMON + "Axioms: none. Causal functions are a fixed family of fn items whose verdict is decided by the observation; relational oracles are Python.",
        technique="Coq proof (induction on fuel over a task-indexed evaluator of the nested inductive model) + differential correspondence incl. call log",
        design="§7 C02"),
    "C10": dict(
        text="Theorems (Coq): given the path the graph's shortest-path routine returns, reasoning evaluates exactly the causaloids of the path prefix up to and including the first non-true "
             "verdict, in path order, each on its routed observation; the result is the conjunction; all other activation cells are unchanged; the four error cases. The path itself is "
             "validated per input by C15's proved optimality checker; the extracted checker recomputes the whole call on the model with that path and compares verdict, call log and activation. Long chains (large graphs) with a closed-form answer are part of every run. A concurrent phase (two threads reasoning over the shortest path of one shared chain with opposite data, 1.5*10^5 calls each) requires every verdict to be that call's conjunction (stress, schedule chosen by the OS).",
        note=LEVEL_NOTE_COMMON + "Axioms: none. petgraph astar not modelled (validated per input, C15).",
        technique="Coq proof (induction over the path) + proved path checker (C15) + model recomputation on the returned path as oracle",
        design="§7 C10"),
    "C11": dict(
        text="Theorems (Coq, every call on every model and state, hence every history): after a run every activation cell holds the verdict of the most recent non-erroring evaluation of "
             "its causaloid in that run and is unchanged when it was not evaluated (or only errored); wrappers are active iff a member is; number / percent / all-active and the "
             "active / inactive filters are recounts. Correspondence after every call of histories with varying data (flags of every causaloid, all aggregates, call log); oracles: "
             "recount laws on the implementation's own flags, and the singleton law whenever the implementation evaluated the same sequence as the model. Further phases on the implementation's own output "
             "(the Coq model covers add-only, non-empty structures): graphs with causaloids removed and re-added (recount over the live members, freshness of returned indices, reachability, shortest-path reasoning), empty collections; "
             "activation is read through both routes (is_active and the active() getter). Half of the graphs are built in RECYCLED objects (filled, cleared, rebuilt); a readers-against-evaluator phase (one evaluating thread, three threads that only read is_active) requires the flag to be the verdict just returned.",
        note=LEVEL_NOTE_COMMON + "Axioms: none. Distinct causaloids have distinct activation cells (clones share; the generator builds distinct ones).",
        technique="Coq proof (log/activation invariant by induction on fuel) + differential correspondence after every call + recount oracle",
        design="§7 C11"),
    "C12": dict(
        text="Theorems (Coq): every order-insensitive answer (counts, all-predicates, percentages, filters as multisets) is invariant under permutation of the item list; verdicts do not depend "
             "on the activation store or on earlier calls (repetition, rebuilt or cloned models give the same verdict). Checks: identical items in slice / Vec / VecDeque / BTreeMap / HashMap "
             "for all four protocols against one model (ordered: identical incl. order; HashMap: id-sorted), pairwise comparison of the ordered containers, every call repeated, every model "
             "built twice, causal graphs also reasoned on a clone.",
        note=LEVEL_NOTE_COMMON + "Axioms: none. HashMap iteration order is removed by sorting; order-sensitive answers on HashMap are outside the property.",
        technique="Coq proof (permutation invariance, purity of the evaluator) + cross-container / repetition / rebuild / clone differential runs",
        design="§7 C12"),
    "C03": dict(
        text="Theorems (Coq, every table, every data value, every failure pattern, every iteration order of the hash map): add on a present id and remove / update on an absent id fail with "
             "the table EQUAL and nothing evaluated or fired, otherwise they act as map insert / delete / replace; evaluating a registered state fires exactly its current action once when the "
             "causaloid evaluates true, nothing when false, and errors (nothing fired) when the evaluation fails, also erroring when the fired action fails; evaluating all states along any "
             "iteration order: success = every state evaluated once and exactly the actions of the true states fired; failure = a successful prefix plus the failing state. The extracted "
             "checker (proved sound, and proved to accept the model) validates every observed operation, accepting an eval_all outcome iff SOME iteration order of the registered ids yields it. A concurrent phase (two state machines sharing one causaloid, evaluated at the same time on two threads with opposite data, 5*10^5 evaluations) requires that the machine whose data is true fires every time and the other never (stress, schedule chosen by the OS). RE-ENTRANT evaluation (an action that evaluates another state of its own machine, through eval_single_state and eval_all_states) must behave like any other evaluation (closed-form firing log).",
        note=LEVEL_NOTE_COMMON + "Axioms: none. States / actions are pooled fn items of the harness with observable firing; HashMap iteration order is existentially quantified.",
        technique="Coq proof (map laws, induction over the iteration order, checker soundness) + proved checker applied to every observed operation",
        design="§7 C03"),
    "C04": dict(
        text="Theorems (Coq, single-producer pipeline model: ANY ring size, number of stages / handlers, batch sizes, every interleaving = every reachable state of the small-step model): "
             "a handler handles the successor of the last sequence it returned from (in order, exactly once, no gaps), only sequences that are completely written and covered by the producer cursor, and "
             "what it sees is intact (slot not re-used, all earlier stages done with it, no later stage touched it); sequence 0 is never delivered (known finding D7). The per-thread programs of the "
             "real code are tied to the model by TRACE VALIDATION: the extracted acceptors (Disruptor/Threads.v) must accept every logged trace operation for operation (kind, location, ordering, "
             "operand, control flow), AND every logged trace is replayed on the proof models themselves (Disruptor/PipeReplay.v on Pipeline.v, Disruptor/MultiReplay.v on MultiPub.v: each logged operation must be an enabled step of the model in the state reached, with the model's value; replay_sound: an accepted trace ends in a reachable model state, so the theorems apply to the execution just observed). The same facts hold without the atomic-snapshot abstraction and with stale loads (Disruptor/HB.v, hb_delivery). Multi producer under true concurrency (Disruptor/MultiPub.v): everything at or below the cursor - consumers never pass it - is completely written and published, in every interleaving. MULTI-PRODUCER PIPELINES OF ANY TOPOLOGY (Disruptor/MultiPipe.v = MultiPub.v composed with the handler side Handlers.v over any barrier stages; every execution projects to an execution of each component): a handler handles i only if its claimant has published i, i is the successor of what it returned from last, and no producer has claimed the next lap of that slot; logged multi-producer executions are replayed on this product model (Disruptor/MultiPipeReplay.v, accepted => reachable). Monitors on every explored schedule check the property on the implementation itself; multi-producer DELIVERY of everything published is violated (stranding = known finding D8). THE STORAGE (Disruptor/Slots.v mirrors const_array_ring_buffer.rs: data[sequence & mask], mask = N-1, unchecked access): the constructor accepts exactly the powers of two; for every 2^k and every history of writes and reads through any sequence numbers no access is out of bounds and a read returns the last write to a congruent sequence (refinement to a map on residues); the extracted model and its specification are compared with the real RingBuffer driven through DataProvider::get / get_mut for rings of 2 .. 262 144 slots, one probe per index bit plus random histories. The builder's OTHER entry points (RustDisruptorBuilder::new over a custom data provider of any size, also not a power of two; with_single_producer / with_multi_producer, which compute the sequencer's size; one or two stages; both wait strategies) are probed with real threads (harness/ds lagprobe): while the last stage is stalled in its first call the producer must not fill past sequence N, afterwards every event must arrive in order with the payload written for its sequence.",
        note=LEVEL_NOTE_COMMON + "Axioms: none. " + "the deterministic scheduler hooks (cfg deepcausality_rs_deep_causality_verif) make every atomic / mutex / condvar operation and slot access of the real code a scheduling point and log it with its real Ordering; Reading several cursors is abstracted to one step returning any value not above the current values (sound by monotonicity). "
             "Multi-producer delivery is explored, not proved; C11 stale reads are not explored.",
        technique="Coq proof (inductive invariant over a small-step interleaving model) + trace validation of the hooked implementation under a deterministic scheduler + trace monitors",
        design="§7.R C04"),
    "C05": dict(
        text="Theorems (Coq, single-producer pipeline, ANY ring size / stage topology / batch sizes / interleaving): (value level, Disruptor/Pipeline.v and again with cursors read one at a time in "
             "Disruptor/HB.v) the producer writes sequence q only when EVERY handler of EVERY stage has returned from q-N; a claim ending at e needs a gating value m with e <= m+N below every last-stage "
             "cursor (a producer a full ring ahead blocks). (Happens-before, Disruptor/HB.v) with Release stores and Acquire loads on the cursors and happens-before tracked as per-thread knowledge "
             "(vector clocks specialised to sequence numbers), at every slot access EVERY earlier access to the same slot - every fill so far, every access so far by a handler of another stage - is "
             "ordered before it by happens-before (handler_no_race, producer_no_race; two inductive invariants: knowledge and real progress). What the theorem assumes of the code (orderings, order of "
             "operations per thread) is pinned by trace validation on every explored execution; an independent vector-clock race detector over the Ordering arguments the code REALLY passed runs on "
             "every explored schedule too. MULTI PRODUCER under true concurrency (Disruptor/MultiPub.v + MultiPubHB.v: any number of producers and first-stage consumers, every atomic operation a step, stale cursor "
             "loads): a producer fills a slot only when every consumer is done with its previous occupant, a consumer about to touch sequence i is ordered after every fill made so far to that slot, and a "
             "producer about to fill is ordered after every consumer access and every fill made so far to that slot. Value level for ANY topology (Disruptor/MultiPipe.v): while a producer fills its claim, every handler of every stage has returned from the previous occupant of each slot. Same-stage mutable handlers race: known finding D9 (excluded from the theorem by stage g <> stage h). THE STORAGE (Disruptor/Slots.v mirrors const_array_ring_buffer.rs): two sequences share a slot iff they are congruent modulo N and every unchecked access is in bounds (theorems, any ring of 2^k slots); the extracted model is compared with the real RingBuffer for rings of 2 .. 262 144 slots. The builder's OTHER entry points (RustDisruptorBuilder::new over a custom data provider of any size, also not a power of two; with_single_producer / with_multi_producer, which compute the sequencer's size; one or two stages; both wait strategies) are probed with real threads (harness/ds lagprobe): while the last stage is stalled in its first call the producer must not fill past sequence N, afterwards every event must arrive in order with the payload written for its sequence.",
        note=LEVEL_NOTE_COMMON + "Axioms: none. Release/acquire semantics are modelled as knowledge transfer (one writer per cursor, so no release sequences are needed); multi-producer happens-before is proved for producers + first-stage consumers (each ready bit its own location: the code packs 64 per word, which only adds synchronisation); later stages of a multi-producer pipeline are monitored per execution. C11 stale reads are not explored by the scheduler (the proof does not depend on read freshness beyond monotone lower bounds... in HB.v loads return the current value).",
        technique="Coq proof (inductive invariants over a per-cursor-read interleaving model with happens-before knowledge) + trace validation of orderings + vector-clock race detection on scheduler-controlled executions",
        design="§7.R C05"),
    "C06": dict(
        text="PARTIAL. Theorems (Coq): (a) blocking wait / signal protocol, any number of waiters and signalling threads, any interleaving, spurious wake-ups: a waiter that parks (or has decided to "
             "park) while its condition holds always has a notification still coming; once all signalling threads are done no waiter with a true condition is parked (no lost wake-up); the guard "
             "is exclusive. (b) NO DEADLOCK STATE on the single-producer pipeline model (Disruptor/Progress.v; any ring size, stage topology, batch sizes): from EVERY reachable state in which no handler "
             "has been told to exit there is a continuation in which every handler has returned from everything published (drain_possible), a write of up to N events completes (write_possible), and "
             "every handler reaches its exit (join_possible). (c) Progress of the blocking protocol (Disruptor/WaitProgress.v): from every reachable state a waiter whose condition holds can return by genuine "
             "steps only - no spurious wake-up needed (waiter_can_return). (d) TERMINATION of the whole single-producer protocol (Disruptor/Liveness.v): the main thread runs any program of write calls (1..N events each), "
             "then drain (alert once the last stage has caught up), then join; handlers exit only after the alert; steps are those of Pipeline.v. EVERY step strictly decreases a potential, so every run is finite with an "
             "explicit bound (no livelock, any scheduler); a reachable state with no enabled step is the COMPLETE state (all writes returned, alert raised, all handlers exited), in which every handler has returned from "
             "every event written (bar sequence 0, finding D7); every program can complete. So under any scheduler that runs an enabled thread whenever there is one, write, drain and join return. Every logged execution of a "
             "drained single-producer pipeline is replayed on that model (LiveReplay.v, soundness theorem; a drain that returns early, a handler thread that ends before the alert, or a finished run whose model state is not "
             "complete is a violation with the schedule as replay). What stays PARTIAL: a spinning or parked thread is modelled as a thread whose step is not enabled (the link parked-and-condition-true => woken is (a) and (c)), "
             "fairness of the OS scheduler is assumed, and the multi-producer pipeline has no termination theorem (it does not terminate: finding D8). Termination is also explored on every run - the "
             "scheduler reports all-finished vs deadlock vs budget exhausted vs panic - for spin and blocking strategies, zero-event pipelines, tiny rings. Found and fixed: drain of an unused single "
             "producer (D5), stale-watermark underflow (D10). Multi-producer stall: known finding D8. REAL-TIME idle probes (plain build, OS threads): a pipeline left idle for seconds (spin and blocking strategies) must still deliver a further batch and drain / join must return - a wait strategy that gives up after many polls only shows there. The manually wired one-producer-per-clone pattern of the multi-producer module documentation (barrier from the sequencer, producer around a CLONE, drained through the clone) must shut down too (harness/ds cloneprobe).",
        note=LEVEL_NOTE_COMMON + "Axioms: none. " + "the deterministic scheduler hooks (cfg deepcausality_rs_deep_causality_verif) make every atomic / mutex / condvar operation and slot access of the real code a scheduling point and log it with its real Ordering; Termination is proved on the spin-style model for the single producer (every run finite, stuck only when complete) and explored otherwise; the progress theorems are on the spin-style model (a blocked thread is a thread whose step is not enabled), the blocking strategy's parking is covered by (a).",
        technique="Coq proof (no-lost-wake-up invariant; progress theorems; termination by a strictly decreasing potential + no stuck state but the complete one) + replay of logged executions on the termination model + scheduler-controlled exploration",
        design="§7.R C06"),
    "C13": dict(
        text="Theorems (Coq, same pipeline model): a stage-(k+1) handler handles sequence i only after EVERY stage-k handler returned from i; it sees the modifications of all earlier stages and "
             "none of later ones while the slot is not re-used; gating the producer on the last stage only suffices because the last stage is the slowest (no handler of any stage is lapped). The same stage-order theorems hold for MULTI-PRODUCER pipelines of any topology (Disruptor/MultiPipe.v: multi-producer sequencer under true concurrency composed with the handler stages). "
             "Trace validation, replay of every logged execution on the proof model (Disruptor/PipeReplay.v: accepted => reachable state of Pipeline.v, theorem replay_sound) and monitors (stage order, overwrite) on every explored schedule. THE STORAGE (Disruptor/Slots.v mirrors const_array_ring_buffer.rs: data[sequence & mask], mask = N-1, unchecked access): the constructor accepts exactly the powers of two; for every 2^k and every history of writes and reads through any sequence numbers no access is out of bounds and a read returns the last write to a congruent sequence (refinement to a map on residues); the extracted model and its specification are compared with the real RingBuffer driven through DataProvider::get / get_mut for rings of 2 .. 262 144 slots, one probe per index bit plus random histories. The builder's OTHER entry points (RustDisruptorBuilder::new over a custom data provider of any size, also not a power of two; with_single_producer / with_multi_producer, which compute the sequencer's size; one or two stages; both wait strategies) are probed with real threads (harness/ds lagprobe): while the last stage is stalled in its first call the producer must not fill past sequence N, afterwards every event must arrive in order with the payload written for its sequence.",
        note=LEVEL_NOTE_COMMON + "Axioms: none. " + "the deterministic scheduler hooks (cfg deepcausality_rs_deep_causality_verif) make every atomic / mutex / condvar operation and slot access of the real code a scheduling point and log it with its real Ordering; ",
        technique="Coq proof (cursor chain along the stages, inductive invariant) + trace validation + trace monitors under a deterministic scheduler",
        design="§7.R C13"),
    "C14": dict(
        text="Theorems (Coq): (a) for ANY number of threads and ANY interleaving of loads and compare-and-swaps on the high watermark, the ranges returned by successful claims tile the sequence space in "
             "claim order, are pairwise disjoint, cover it without gaps and have the requested lengths; a cursor that is only ever swapped upwards never decreases. (b) Sequencers driven through the "
             "Sequencer API (Disruptor/SeqApi.v mirrors next / publish of both sequencers statement by statement, the ready bitmap being the BitMap model): for EVERY history - any number of outstanding "
             "claims, any consumer progress, and for the multi-producer sequencer publishes completing in ANY order - the executable property [check] (contiguous claims of the requested length, cursor "
             "monotone, never past an unpublished sequence, equal to the highest claim once all is published) accepts the single-producer model (sp_property, publishes in claim order) and can only fail "
             "the multi-producer model with verdict 5 = all published but cursor below the highest claim (mp_property; mp_stranding exhibits it: known finding D8). So 'never past an unpublished sequence' "
             "is proved for the bitmap / low-watermark publish path, any ring size 2^k. (b') TRUE CONCURRENCY (Disruptor/MultiPub.v): any number of producer threads, every atomic operation of next() and "
             "publish() a separate step, any interleaving, consumers moving at any time, any N >= 1: the cursor never covers a sequence whose claimant has not published it (cursor_only_published), "
             "never decreases, concurrent claims are disjoint; and the stranding of finding D8 is a reachable interleaving (stranding_reachable). Every multi-producer execution explored under the scheduler is replayed on that model (Disruptor/MultiReplay.v: claims, bit sets / clears, scan tests, cursor CAS attempts and watermark accesses must be enabled steps with the model's values; an accepted trace ends in a reachable state, in which the cursor covers only published sequences: replay_cursor_only_published). (c) single-producer pipeline: cursor never covers an unwritten sequence. The SAME extracted [check] judges the "
             "implementation's histories (harness/ds seqapi: real sequencers driven directly), whose outputs are also compared with the extracted model; monitors on every explored concurrent schedule "
             "(multi producer with 2-3 writer threads, rings of 2..128 slots). Back-pressure probes: a claim that must wait by the capacity rule is issued anyway and must not return (sequencers with 0, 1, 2 gating sequences). The single-producer sequencer is also driven with sizes that are not powers of two (3, 5, 6, 7, 12). Producer::write (claim + fill + publish through a data provider) is driven directly, empty batches on the multi-producer sequencer included, against the same model and an independent oracle (after every write the cursor is the highest claimed sequence). CLONES of one multi-producer sequencer (the one-producer-per-clone pattern of the module documentation): claims through one clone are disjoint (control); claims through different clones overlap - REFUTED on the model (C14_claims_through_clones_overlap_refuted) and listed as known finding D13.",
        note=LEVEL_NOTE_COMMON + "Axioms: none. " + "the deterministic scheduler hooks (cfg deepcausality_rs_deep_causality_verif) make every atomic / mutex / condvar operation and slot access of the real code a scheduling point and log it with its real Ordering; The multi-producer publish path is proved both sequentially against the BitMap word model (SeqApi) and under true concurrency against the bitmap's specification (one bit per residue, C19) in MultiPub; C11 stale reads are not part of that interleaving model.",
        technique="Coq proof (CAS histories; sequential sequencer models with a bitmap-window invariant; proved-about property checker applied to implementation histories) + trace monitors under a deterministic scheduler",
        design="§7.R C14"),
}

ALL = [f"C{n:02d}" for n in range(1, 20)]
PENDING_REASON = "check not built yet in this round (work in progress; DESIGN.md §7 describes the planned model and theorems)"


def main():
    checks = []
    for pid in ALL:
        if pid not in CHECKS:
            continue
        c = CHECKS[pid]
        checks.append({
            "property_id": pid,
            "quick_cmd": f"python3 bin/check.py {pid} --tier quick",
            "thorough_cmd": f"python3 bin/check.py {pid} --tier thorough",
            "evidence_file": f"/verif/evidence/{pid}.json",
            "replay_cmd_template": f"python3 bin/check.py {pid} --replay {{path}}",
            "engine": "coq-proof+correspondence",
            "level_claimed": {"category": c.get("category", "proof"), "text": c["text"], "design_ref": c["design"]},
            "level_note": c["note"],
            "technique": c["technique"],
        })
    m = {
        "version": 1,
        "setup_cmd": "sh bin/setup.sh",
        "hooks": {
            "guard": "deepcausality_rs_deep_causality_verif",
            "enable": "RUSTFLAGS=\"--cfg deepcausality_rs_deep_causality_verif\" cargo build --offline (harness/ring depends on /repo/dcl_data_structures by path)",
            "baseline_off_cmd": "cd /repo && cargo test --workspace --no-fail-fast --offline",
            "source_commits": HOOK_COMMITS,
            "add_only": True,
        },
        "engines": [{
            "name": "coq-proof+correspondence", "path": "/verif/bin/check.py",
            "serves_properties": [c["property_id"] for c in checks],
            "kind_free_text": "Coq 8.16.1 theorems over hand-written executable Gallina models; models extracted to OCaml and run against a Rust harness built from /repo's working tree on the same generated inputs (differential correspondence); executable specs as property oracles",
        }],
        "checks": checks,
        "notes": "See DESIGN.md. known_findings.json lists genuine defects (open findings are printed as KNOWN-FINDING) and fixed ones.",
        "not_applicable": [{"property_id": p, "reason": NA.get(p, PENDING_REASON)} for p in ALL if p not in CHECKS],
    }
    with open(os.path.join(VERIF, "MANIFEST.json"), "w") as f:
        json.dump(m, f, indent=1)
    print("claimed:", [c["property_id"] for c in checks])


HOOK_COMMITS = ["493e421", "849dd17"]
NA = {}

if __name__ == "__main__":
    main()
