#!/usr/bin/env python3
"""check.py <Cxx> [--tier quick|thorough] [--replay file]   (cwd = /verif)"""
import importlib, os, sys
sys.path.insert(0, os.path.dirname(os.path.abspath(__file__)))

def main():
    if len(sys.argv) < 2:
        print(__doc__); sys.exit(2)
    prop = sys.argv[1].upper()
    mod = importlib.import_module("props." + prop.lower())
    if "--replay" in sys.argv:
        path = sys.argv[sys.argv.index("--replay") + 1]
        sys.exit(mod.replay(path))
    mod.main()

if __name__ == "__main__":
    main()
