#!/usr/bin/env python3
"""coqgoal.py <file.v> <line>: show the proof state just before the given line (1-based)"""
import subprocess, sys
f, n = sys.argv[1], int(sys.argv[2])
src = open(f).read().split("\n")
open("/tmp/_goal.v", "w").write("\n".join(src[:n - 1]) + "\nShow.\n")
out = subprocess.run("coqtop -Q theories DC -batch -l /tmp/_goal.v 2>&1 | tail -%d" % (int(sys.argv[3]) if len(sys.argv) > 3 else 45),
                     shell=True, cwd="/verif/coq", capture_output=True, text=True).stdout
print(out)
