"""Ring buffer: configuration / schedule generation, running the hooked implementation under the
deterministic scheduler (harness/ring), trace parsing and the implementation-side monitors (oracles)
for C04 C05 C06 C13 C14."""
import os, subprocess, random, json
from vlib import *

K = dict(LOAD=1, STORE=2, CAS=3, FADD=4, FOR=5, FAND=6, BLOAD=7, BSTORE=8, LOCK=9, UNLOCK=10, CVWAIT=11, CVWAKE=12, NOTIFY=13,
         GET=14, GETMUT=15, TSTART=20, TEND=21, FILL=22, CALL=23, RET=24, WCALL=25, WRET=26, DCALL=27, DRET=28, JOINED=29)
ORD = {0: "Relaxed", 1: "Acquire", 2: "Release", 3: "AcqRel", 4: "SeqCst", 9: "-"}
C_PCUR, C_HCUR, C_INLINE, C_FLAG, C_MUTEX, C_CV, C_SLOT, C_HEAP = 1, 2, 3, 4, 5, 6, 7, 9


class Cfg:
    def __init__(self, n, multi, block, stages, writers, seed, strategy=0, budget=None, spurious=False, drain=1, replay=()):
        self.n = n; self.multi = multi; self.block = block; self.stages = stages; self.writers = writers
        self.seed = seed; self.strategy = strategy; self.spurious = spurious; self.drain = drain; self.replay = list(replay)
        ev = sum(sum(w) for w in writers)
        self.budget = budget or (4000 + 500 * (ev + 2) * (1 + sum(len(s) for s in stages)))

    def line(self):
        out = [self.n, int(self.multi), int(self.block), len(self.stages)]
        for s in self.stages: out += [len(s)] + list(s)
        out += [len(self.writers)]
        for w in self.writers: out += [len(w)] + list(w)
        out += [self.seed, self.strategy, self.budget, int(self.spurious), self.drain] + self.replay
        return " ".join(str(x) for x in out)

    def nh(self): return sum(len(s) for s in self.stages)

    def stage_of(self):
        out = []
        for k, s in enumerate(self.stages): out += [k] * len(s)
        return out

    def kinds(self):
        return [k for s in self.stages for k in s]

    def exclusive_mut(self):
        return all(len(s) == 1 or all(k == 0 for k in s) for s in self.stages)

    def to_json(self):
        return dict(n=self.n, multi=self.multi, block=self.block, stages=self.stages, writers=self.writers, seed=self.seed,
                    strategy=self.strategy, budget=self.budget, spurious=self.spurious, drain=self.drain, replay=self.replay, line=self.line())

    @staticmethod
    def from_json(d):
        return Cfg(d["n"], d["multi"], d["block"], d["stages"], d["writers"], d["seed"], d["strategy"], d["budget"], d["spurious"], d["drain"], d.get("replay", ()))


def gen_cfg(rng, multi=None, max_events=24, allow_nonexclusive=False, zero_events=True):
    n = rng.choice([1, 2, 2, 4, 4, 8, 8, 16, 64, 128])
    if multi is None: multi = rng.random() < 0.4
    if multi and n == 1: n = 2
    block = rng.random() < 0.5
    ns = rng.choice([1, 1, 2, 2, 3])
    stages = []
    for _ in range(ns):
        nh = rng.choice([1, 1, 2, 3])
        if rng.random() < 0.35:
            if allow_nonexclusive and rng.random() < 0.5:
                st = [rng.choice([0, 1]) for _ in range(nh)]
            else:
                st = [1]
        else:
            st = [0] * nh
        stages.append(st)
    maxb = max(1, n - 1)
    def batches(total):
        out = []
        while total > 0:
            b = min(total, rng.randrange(1, maxb + 1)); out.append(b); total -= b
        return out
    if multi:
        nw = rng.choice([1, 2, 2, 3])
        writers = [batches(rng.randrange(0 if zero_events else 1, max(2, max_events // nw))) for _ in range(nw)]
    else:
        writers = [batches(rng.randrange(0 if zero_events else 1, max_events))]
    if n == 1:
        writers = [[]]      # batches must be smaller than the capacity: a 1-slot ring can only be drained
    return Cfg(n, multi, block, stages, writers, rng.randrange(1, 2**31), rng.choice([0, 0, 0, 1, 2]), None, block and rng.random() < 0.5)


class Ev:
    __slots__ = ("i", "tid", "kind", "cls", "off", "ord", "ord2", "a", "b", "obs", "ok")

    def __init__(self, i, f):
        self.i = i; self.tid, self.kind, self.cls, self.off, self.ord, self.ord2, self.a, self.b, self.obs, self.ok = f

    def brief(self):
        names = {v: k for k, v in K.items()}
        return f"#{self.i} t{self.tid} {names.get(self.kind, self.kind)} cls{self.cls}:{self.off} {ORD.get(self.ord,'?')} a={self.a} b={self.b} obs={self.obs} ok={self.ok}"


class Trace:
    def __init__(self, cfg, outcome, steps, events, schedule):
        self.cfg = cfg; self.outcome = outcome; self.steps = steps; self.events = events; self.schedule = schedule


def ring_binary(run):
    b, log = cargo_build("ring", (), "release", hook=True)
    if not b:
        fatal(run, "cargo build of harness/ring (hooks on) against /repo failed", log)
    return b


def run_cfgs(binary, cfgs, timeout=40):
    """run every cfg; the harness exits after an aborted run (deadlock / budget) and is restarted"""
    traces = []
    todo = list(cfgs)
    while todo:
        data = "\n".join(c.line() for c in todo) + "\n"
        try:
            p = subprocess.run([binary], input=data, stdout=subprocess.PIPE, stderr=subprocess.PIPE, text=True, timeout=timeout)
            out = p.stdout
        except subprocess.TimeoutExpired as ex:
            out = ex.stdout.decode() if isinstance(ex.stdout, bytes) else (ex.stdout or "")
        got = parse_runs(out, todo)
        traces += got
        if len(got) == len(todo):
            break
        if not got:
            # the run hung without the scheduler noticing (should not happen): record as hang
            traces.append(Trace(todo[0], 4, 0, [], []))
            todo = todo[1:]
        else:
            todo = todo[len(got):]
    return traces


def parse_runs(out, cfgs):
    traces = []; cur = None; k = 0
    for line in out.split("\n"):
        if line.startswith("RUN "):
            _, oc, steps, nev = line.split()
            cur = dict(outcome=int(oc), steps=int(steps), events=[], schedule=[])
        elif line.startswith("E ") and cur is not None:
            f = [int(x) for x in line.split()[1:]]
            cur["events"].append(Ev(len(cur["events"]), f))
        elif line.startswith("SCHED") and cur is not None:
            cur["schedule"] = [int(x) for x in line.split()[1:]]
        elif line.startswith("END") and cur is not None:
            traces.append(Trace(cfgs[k], cur["outcome"], cur["steps"], cur["events"], cur["schedule"])); k += 1; cur = None
    return traces


# ------------------------------------------------------------------------------------------------
# monitors
# ------------------------------------------------------------------------------------------------
M64 = (1 << 64) - 1


def transform(p, h):
    return (p * 1000003 + h + 1) & M64


class Finding:
    def __init__(self, prop, kind, what, at=None, known=None):
        self.prop = prop; self.kind = kind; self.what = what; self.at = at; self.known = known

    def __repr__(self):
        return f"{self.prop}:{self.kind}:{self.what}"


def analyse(tr):
    """returns list of Finding over all five properties for one trace"""
    cfg = tr.cfg; ev = tr.events; F = []
    nh = cfg.nh(); stage_of = cfg.stage_of(); kinds = cfg.kinds(); N = cfg.n
    last_stage = len(cfg.stages) - 1
    first_seq = 1 if cfg.multi else 0
    fills = {}          # seq -> (event index, payload, writer)
    pcur = 0            # current value of the producer cursor
    pcur_hist = []      # (event index, value)
    calls = [[] for _ in range(nh)]       # per handler: (idx, seq, payload_seen, eob)
    rets = [dict() for _ in range(nh)]    # per handler: seq -> (idx, payload_left)
    claims = []         # multi: (event index of CAS success on the inline high watermark, lo, hi, tid)
    hw_off = None
    fetch_or = {}       # tid -> count of fetch_or ops
    publish_marks = {}  # seq -> event index of the fetch_or that marks it published
    writer_batches = {} # tid -> list of [seqs of current write]
    cur_batch = {}
    stores_by_handler = {}
    # ---------- pass 1: bookkeeping and C04 / C13 / C14 value-level monitors
    for e in ev:
        k = e.kind
        if k == K["WCALL"]:
            cur_batch[e.tid] = dict(size=e.a, seqs=[], start=e.i)
        elif k == K["FILL"]:
            if e.a in fills:
                F.append(Finding("C14", "double-claim", f"sequence {e.a} filled twice (events #{fills[e.a][0]} and #{e.i})", e.i))
            fills[e.a] = (e.i, e.b, e.tid)
            cur_batch.setdefault(e.tid, dict(size=0, seqs=[], start=e.i))["seqs"].append(e.a)
            # C05 / C13: overwrite before consumption: every handler must have finished s-N
            s_old = e.a - N
            if s_old >= 1:         # sequence 0 of a single producer is never consumed (known finding D7)
                for h in range(nh):
                    if s_old not in rets[h]:
                        F.append(Finding("C05" if stage_of[h] == last_stage else "C13", "overwrite-before-consumption",
                                         f"sequence {e.a} written into slot {e.a % N} while handler {h} (stage {stage_of[h]}) had not finished sequence {s_old}", e.i))
        elif k == K["WRET"]:
            b = cur_batch.pop(e.tid, None)
            if b is not None:
                seqs = b["seqs"]
                if len(seqs) != b["size"] or any(seqs[i + 1] != seqs[i] + 1 for i in range(len(seqs) - 1)):
                    F.append(Finding("C14", "bad-claim", f"write of {b['size']} items was given sequences {seqs}", e.i))
                writer_batches.setdefault(e.tid, []).append(seqs)
        elif k == K["STORE"] and e.cls == C_PCUR:
            if e.a < pcur: F.append(Finding("C14", "cursor-decreased", f"producer cursor stored {e.a} after {pcur}", e.i))
            pcur = e.a; pcur_hist.append((e.i, pcur))
        elif k == K["CAS"] and e.cls == C_PCUR and e.ok:
            if e.b < pcur: F.append(Finding("C14", "cursor-decreased", f"producer cursor CAS to {e.b} after {pcur}", e.i))
            pcur = e.b; pcur_hist.append((e.i, pcur))
        elif k == K["CAS"] and e.cls == C_INLINE and e.ok:
            hw_off = e.off if hw_off is None else hw_off
            if e.off == hw_off:
                claims.append((e.i, e.a + 1, e.b, e.tid))
        elif k == K["FOR"]:
            fetch_or[e.tid] = fetch_or.get(e.tid, 0) + 1
        elif k == K["CALL"]:
            calls[e.off].append((e.i, e.a, e.b, e.obs))
        elif k == K["RET"]:
            rets[e.off][e.a] = (e.i, e.b)
        if k in (K["STORE"], K["CAS"]) and e.cls == C_PCUR:
            v = pcur
            # C14 / C04: the cursor never moves past a sequence that is not completely written
            for s in range(first_seq, v + 1):
                if s not in fills:
                    F.append(Finding("C14", "premature-release", f"producer cursor moved to {v} but sequence {s} has not been written yet", e.i)); break
    # cursor value at each event index
    def pcur_at(i):
        v = 0
        for (j, x) in pcur_hist:
            if j <= i: v = x
            else: break
        return v
    excl = cfg.exclusive_mut()
    for h in range(nh):
        prev = None
        for (i, s, p, eob) in calls[h]:
            # C04: in order, no gaps, exactly once
            if prev is None:
                if s != first_seq:
                    if (not cfg.multi) and s == 1:
                        F.append(Finding("C04", "first-event-lost", f"handler {h} starts at sequence 1: sequence 0 is never delivered", i, known="C04-D7-seq0-lost"))
                    else:
                        F.append(Finding("C04", "wrong-first-sequence", f"handler {h} first handles sequence {s}, expected {first_seq}", i))
            elif s != prev + 1:
                F.append(Finding("C04", "gap-or-repeat", f"handler {h} handled sequence {s} after {prev}", i))
            prev = s
            # C04: only completely written and published sequences
            if s not in fills or fills[s][0] > i:
                F.append(Finding("C04", "unwritten", f"handler {h} invoked for sequence {s} before it was written", i))
            elif s > pcur_at(i):
                F.append(Finding("C04", "unpublished", f"handler {h} invoked for sequence {s} while the producer cursor was {pcur_at(i)}", i))
            else:
                # payload: as written, transformed by the mutable handlers of the earlier stages (in stage order)
                if excl:
                    exp = fills[s][1]
                    for g in range(nh):
                        if stage_of[g] < stage_of[h] and kinds[g] == 1: exp = transform(exp, g)
                    if p != exp:
                        F.append(Finding("C04", "payload", f"handler {h} saw payload {p} for sequence {s}, expected {exp}", i))
            # C13: every handler of the previous stage has returned from this sequence
            if stage_of[h] > 0:
                for g in range(nh):
                    if stage_of[g] == stage_of[h] - 1 and (s not in rets[g] or rets[g][s][0] > i):
                        F.append(Finding("C13", "stage-order", f"handler {h} (stage {stage_of[h]}) invoked for sequence {s} before handler {g} (stage {stage_of[g]}) returned from it", i))
    # C14: claims tile the sequence space in claim order
    if cfg.multi:
        exp_lo = 1
        for (i, lo, hi, tid) in claims:
            if lo != exp_lo: F.append(Finding("C14", "claims-not-tiling", f"claim ({lo},{hi}) follows a claim ending at {exp_lo - 1}", i))
            exp_lo = hi + 1
    else:
        allseq = sorted(fills)
        if allseq and allseq != list(range(0, len(allseq))):
            F.append(Finding("C14", "claims-not-tiling", f"single producer filled sequences {allseq[:10]}..", None))
    # ---------- completion (needs a finished run)
    total = sum(sum(w) for w in cfg.writers)
    highest = (first_seq + total - 1) if total > 0 else None
    writers_done = all(any(e.kind == K["TEND"] and e.tid == t for e in ev) for t in ({nh + 1 + w for w in range(len(cfg.writers))} if cfg.multi else set()))
    drain_called = any(e.kind == K["DCALL"] for e in ev)
    if tr.outcome == 1:
        if highest is not None and pcur != highest and len(fills) == total:
            kn = "C14-D8-multi-publish-stranding" if (cfg.multi and len([w for w in cfg.writers if w]) >= 2) else None
            F.append(Finding("C14", "cursor-behind", f"all {total} claimed sequences were published but the cursor ended at {pcur}, highest claimed {highest}", None, known=kn))
        for h in range(nh):
            got = calls[h][-1][1] if calls[h] else None
            want = highest if (highest is not None and highest >= 1) else None
            if want is not None and got != want:
                kn = "C04-D8-multi-publish-stranding" if (cfg.multi and len([w for w in cfg.writers if w]) >= 2) else None
                F.append(Finding("C04", "not-delivered", f"after drain and join handler {h} had handled up to {got}, last published sequence is {want}", None, known=kn))
    else:
        why = {2: "deadlock: no thread can take a step", 3: "no termination within the step budget", 4: "harness hang",
               5: "a thread panicked inside the ring buffer"}.get(tr.outcome, str(tr.outcome))
        kn = None
        if cfg.multi and len([w for w in cfg.writers if w]) >= 2: kn = "C06-D8-multi-publish-stall"
        F.append(Finding("C06", "no-termination", f"{why} after {tr.steps} steps ({describe_blocked(tr)})", None, known=kn))
    # ---------- C05: happens-before race detection on slot accesses
    F += races(tr)
    return F


def describe_blocked(tr):
    last = {}
    for e in tr.events: last[e.tid] = e
    ended = {e.tid for e in tr.events if e.kind == K["TEND"]}
    return "; ".join(f"t{t}: {'finished' if t in ended else last[t].brief()}" for t in sorted(last))


def vc_join(a, b):
    return [max(x, y) for x, y in zip(a, b)]


def vc_leq(a, b):
    return all(x <= y for x, y in zip(a, b))


def races(tr):
    """vector-clock happens-before analysis with the orderings the code really passed"""
    cfg = tr.cfg; nt = 1 + cfg.nh() + (len(cfg.writers) if cfg.multi else 0)
    vc = [[0] * nt for _ in range(nt)]
    for t in range(nt): vc[t][t] = 1
    loc = {}            # (cls, off) -> release clock
    mutex = [0] * nt
    slots = {}          # index -> dict(write=(tid, clock, ev), reads=[(tid, clock, ev)])
    ended = {}
    F = []
    REL = (2, 3, 4); ACQ = (1, 3, 4)
    excl = cfg.exclusive_mut()
    for e in tr.events:
        t = e.tid; k = e.kind
        key = (e.cls, e.off)
        if k in (K["LOAD"], K["BLOAD"]):
            if e.ord in ACQ and key in loc: vc[t] = vc_join(vc[t], loc[key])
        elif k in (K["STORE"], K["BSTORE"]):
            loc[key] = list(vc[t]) if e.ord in REL else [0] * nt
        elif k in (K["CAS"], K["FADD"], K["FOR"], K["FAND"]):
            okk = e.ok or k != K["CAS"]
            ordr = e.ord if okk else e.ord2
            if ordr in ACQ and key in loc: vc[t] = vc_join(vc[t], loc[key])
            if okk:
                cur = loc.get(key, [0] * nt)
                loc[key] = vc_join(cur, vc[t]) if e.ord in REL else cur        # an RMW continues the release sequence
        elif k in (K["LOCK"], K["CVWAKE"]):
            vc[t] = vc_join(vc[t], mutex)
        elif k in (K["UNLOCK"], K["CVWAIT"]):
            mutex = list(vc[t])
        elif k == K["TEND"]:
            ended[t] = list(vc[t])
        elif k == K["JOINED"]:
            for u, c in ended.items(): vc[t] = vc_join(vc[t], c)
        elif k in (K["GET"], K["GETMUT"]):
            s = slots.setdefault(e.off, dict(write=None, reads=[]))
            me = (t, list(vc[t]), e)
            w = s["write"]
            if w is not None and w[0] != t and not vc_leq(w[1], vc[t]):
                F.append(Finding("C05", "race", f"slot {e.off}: {e.brief()} is not ordered after {w[2].brief()}", e.i,
                                 known=None if excl else "C05-D9-same-stage-mutable-handler"))
            if k == K["GETMUT"]:
                for r in s["reads"]:
                    if r[0] != t and not vc_leq(r[1], vc[t]):
                        F.append(Finding("C05", "race", f"slot {e.off}: {e.brief()} is not ordered after {r[2].brief()}", e.i,
                                         known=None if excl else "C05-D9-same-stage-mutable-handler"))
                s["write"] = me; s["reads"] = []
            else:
                s["reads"].append(me)
        vc[t][t] += 1
    return F
