#!/usr/bin/env python3
"""seedcheck.py <Cxx> <worktree> <crate> [extra check ids...]: confirm a seeded change (compiles, suite passes, demo fails with /
passes without), store it under /verif/seeded/<id>/, run the checks against it in /repo and undo."""
import json, os, shutil, subprocess, sys, time
pid, wt, crate = sys.argv[1], sys.argv[2], sys.argv[3]
others = sys.argv[4:]
env = dict(os.environ, CARGO_TARGET_DIR=os.path.join(wt, "target"), CARGO_NET_OFFLINE="true")
def sh(cmd, cwd=wt, timeout=1800):
    p = subprocess.run(cmd, shell=True, cwd=cwd, env=env, stdout=subprocess.PIPE, stderr=subprocess.STDOUT, text=True, timeout=timeout)
    return p.returncode, p.stdout
seed = os.path.join(wt, "SEEDED")
patch = open(os.path.join(seed, "patch.diff")).read()
# locate the demo inside the tree
rc, out = sh("git status --porcelain")
demo_files = [l[3:] for l in out.split("\n") if l.startswith("??") and "SEEDED" not in l and "target" not in l]
features = " --features unsafe" if "--features unsafe" in open(os.path.join(seed, "demo.rs")).read() + open(os.path.join(seed, "notes.md")).read() else ""
if "cargo test --release" in open(os.path.join(seed, "demo.rs")).read(): features += " --release"      # a change that only shows without debug assertions
res = {"property": pid, "worktree_demo_files": demo_files}
PHASE = os.environ.get("SEEDCHECK_PHASE", "AB")     # A: the worktree part only (may run in parallel); B: store + checks in /repo (serial)
PART = os.path.join(seed, ".phaseA.json")
demo_name = None
for f in demo_files:
    if f.endswith(".rs") and "/tests/" in f: demo_name = os.path.splitext(os.path.basename(f))[0]
cfgflag = 'RUSTFLAGS="--cfg deepcausality_rs_deep_causality_verif" ' if "deepcausality_rs_deep_causality_verif" in open(os.path.join(seed, "demo.rs")).read() else ""
cmd = f"{cfgflag}cargo test -p {crate} --test {demo_name} --offline{features}" if demo_name else None
res["demo_cmd"] = cmd
if "A" not in PHASE:
    res = json.load(open(PART))
else:
  rc1, o1 = sh(cmd); res["demo_with_change"] = "fails" if rc1 != 0 else "PASSES(!)"
  sh("git diff > SEEDED/.lib.diff && git checkout -- .")          # no git stash: the stash is shared between worktrees
  rc2, o2 = sh(cmd); res["demo_without_change"] = "passes" if rc2 == 0 else "FAILS(!)"
  sh("git apply SEEDED/.lib.diff && rm SEEDED/.lib.diff")
  # the unedited suite with the change (demo moved aside)
  for f in demo_files: os.rename(os.path.join(wt, f), os.path.join(wt, f) + ".aside")
  rc3, o3 = sh("cargo test --workspace --no-fail-fast --offline 2>&1 | grep -E '^test result' | awk '{p+=$4; f+=$6} END {print p, f}'")
  for f in demo_files: os.rename(os.path.join(wt, f) + ".aside", os.path.join(wt, f))
  res["suite_with_change"] = o3.strip()
if PHASE == "A":
    json.dump(res, open(PART, "w"), indent=1); print(json.dumps(res, indent=1)); sys.exit(0)
# store
k = 1
while os.path.exists(f"/verif/seeded/{pid}-{k}"): k += 1
dst = f"/verif/seeded/{pid}-{k}"; os.makedirs(dst)
for f in ("patch.diff", "demo.rs", "notes.md"):
    if os.path.exists(os.path.join(seed, f)): shutil.copy(os.path.join(seed, f), dst)
# run the checks against /repo with the change applied
assert subprocess.run("git status --porcelain", shell=True, cwd="/repo", capture_output=True, text=True).stdout.strip() == "", "/repo not clean"
ap = subprocess.run(["git", "-C", "/repo", "apply", os.path.join(dst, "patch.diff")], capture_output=True, text=True)
res["patch_applies_to_repo"] = ap.returncode == 0
checks = {}
try:
    if ap.returncode == 0:
        for c in [pid] + others:
            t = time.time()
            p = subprocess.run(["python3", "bin/check.py", c, "--tier", "quick"], cwd="/verif", capture_output=True, text=True, timeout=1800)
            viol = [l for l in p.stdout.split("\n") if l.startswith("VIOLATION")]
            checks[c] = {"exit": p.returncode, "violation_lines": viol[:3], "wall_s": round(time.time() - t, 1)}
            if viol:
                rp = viol[0].split("replay=")[1].split()[0]
                try:
                    d = json.load(open(rp)); checks[c]["first_replay"] = {k: (d.get(k) if len(str(d.get(k))) < 3000 else str(d.get(k))[:3000] + " ...(truncated)") for k in ("kind", "why", "what", "harness_line", "finding") if k in d}
                except Exception as ex: checks[c]["first_replay"] = str(ex)
finally:
    subprocess.run("git checkout -- . && git clean -fdq", shell=True, cwd="/repo")
res["checks_on_seeded_tree"] = checks
res["detected_by"] = [c for c, v in checks.items() if v["exit"] != 0]
json.dump(res, open(os.path.join(dst, "meta.json"), "w"), indent=1)
print(json.dumps(res, indent=1))
