#!/usr/bin/env python3
"""Common machinery of the checks (see DESIGN.md §2, §3).

A check = proof obligations (Coq) + correspondence (model vs implementation on the same inputs)
+ property oracle (executable spec / proved checker against the implementation's output).
"""
import json, os, random, re, subprocess, sys, time, hashlib, shutil

VERIF = os.path.dirname(os.path.dirname(os.path.abspath(__file__)))
COQ = os.path.join(VERIF, "coq")
CACHE = os.path.join(VERIF, ".cache")
TARGET = os.path.join(CACHE, "target")
DRIVER = os.path.join(CACHE, "ocaml", "driver")
REPO = "/repo"
GUARD = "deepcausality_rs_deep_causality_verif"

FORBIDDEN = re.compile(
    r"\b(Admitted|admit|Axiom|Axioms|Parameter|Parameters|Conjecture|Conjectures|Hypothesis|Hypotheses|Variable|Variables)\b"
    r"|Unset\s+Guard|bypass_check|type-in-type|impredicative-set|Unset\s+Positivity|Unset\s+Universe|Admit\s+Obligations")

TRUSTED_BASE_COMMON = [
    "Coq 8.16.1 kernel (coqc; vm_compute used in *_refuted / Example lemmas; no native_compute)",
    "Coq extraction to OCaml with ExtrOcamlBasic only (bool, option, unit, list, prod, sumbool, sumor mapped; andb/orb inlined); nat/positive/N/Z stay extracted inductives",
    "OCaml 4.13.1 and /verif/ocaml/driver.ml (decimal parsing/printing, dispatch); on every run a sample of the model evaluations (short inputs, up to 30) is re-evaluated inside Coq with vm_compute and compared with the extracted program's answers (coverage.extraction_crosscheck_in_coq_kernel)",
    "Rust correspondence harness under /verif/harness, the generators and comparison in /verif/bin",
    "hand-written Gallina model of the anchored Rust code (tied to /repo only by the correspondence check of this run)",
]


def env_offline():
    e = dict(os.environ)
    e["CARGO_NET_OFFLINE"] = "true"
    e.setdefault("PIP_NO_INDEX", "1")
    e.setdefault("GOPROXY", "off")
    return e


def sh(cmd, timeout=1800, cwd=None, env=None, input=None):
    """run, return (rc, stdout+stderr)"""
    try:
        p = subprocess.run(cmd, shell=isinstance(cmd, str), cwd=cwd, env=env or env_offline(),
                           input=input, stdout=subprocess.PIPE, stderr=subprocess.STDOUT,
                           timeout=timeout, text=True)
        return p.returncode, p.stdout
    except subprocess.TimeoutExpired as ex:
        out = ex.stdout or ""
        if isinstance(out, bytes):
            out = out.decode(errors="replace")
        return 124, out + "\nTIMEOUT"


# ------------------------------------------------------------------------------------------------
# Proof obligations
# ------------------------------------------------------------------------------------------------
class ProofResult:
    def __init__(self):
        self.ok = True
        self.obligations = 0
        self.discharged = 0
        self.theorems = []
        self.failed = []          # names / messages
        self.assumptions = {}     # theorem -> list of axioms ([] = closed)
        self.log = ""
        self.cmd = ""


def ensure_makefile():
    mk = os.path.join(COQ, "Makefile")
    cp = os.path.join(COQ, "_CoqProject")
    if not os.path.exists(mk) or os.path.getmtime(mk) < os.path.getmtime(cp):
        sh("coq_makefile -f _CoqProject -o Makefile", cwd=COQ, timeout=120)


def audit_sources(files):
    """static audit: no Admitted/admit/Axiom/... in the given .v files (comments stripped)."""
    bad = []
    for f in files:
        try:
            src = open(f).read()
        except OSError:
            bad.append((f, 0, "missing file"))
            continue
        # strip comments (nested)
        out = []
        depth = 0
        i = 0
        while i < len(src):
            if src.startswith("(*", i):
                depth += 1; i += 2; continue
            if src.startswith("*)", i) and depth > 0:
                depth -= 1; i += 2; continue
            if depth == 0:
                out.append(src[i])
            elif src[i] == "\n":
                out.append("\n")
            i += 1
        code = "".join(out)
        in_section = 0
        for ln, line in enumerate(code.split("\n"), 1):
            if re.match(r"\s*Section\b", line):
                in_section += 1
            if re.match(r"\s*End\b", line) and in_section > 0:
                in_section -= 1
            for m in FORBIDDEN.finditer(line):
                w = m.group(0)
                if w.startswith(("Variable", "Hypothes")) and in_section > 0:
                    continue
                if w in ("Context",):
                    continue
                bad.append((f, ln, w))
    return bad


def coq_deps(vfile):
    """transitive DC.* dependencies (.v files) of a .v file, via coqdep"""
    rc, out = sh(f"coqdep -Q theories DC {vfile}", cwd=COQ, timeout=120)
    files = set()
    seen = set()
    todo = [vfile]
    while todo:
        f = todo.pop()
        if f in seen:
            continue
        seen.add(f)
        files.add(f)
        rc, out = sh(f"coqdep -Q theories DC {f}", cwd=COQ, timeout=120)
        for m in re.finditer(r"(theories/\S+)\.vo\b", out.split(":", 1)[1] if ":" in out else ""):
            todo.append(m.group(1) + ".v")
    return sorted(files)


def prove(prop_id, props_file, allowed_axioms=(), thorough=False, timeout=1500):
    """Build the property's theorem file (and everything it depends on), audit, read Print Assumptions."""
    r = ProofResult()
    ensure_makefile()
    vo = props_file[:-2] + ".vo"
    src = open(os.path.join(COQ, props_file)).read()
    r.theorems = re.findall(r"^\s*Theorem\s+(\w+)", src, re.M)
    r.obligations = len(r.theorems)
    deps = coq_deps(props_file)
    if thorough:
        for d in deps:
            for ext in (".vo", ".glob", ".vos", ".vok"):
                try:
                    os.remove(os.path.join(COQ, d[:-2] + ext))
                except OSError:
                    pass
    else:
        try:
            os.remove(os.path.join(COQ, vo))
        except OSError:
            pass
    r.cmd = f"make -C /verif/coq -j16 {vo}  (coqc 8.16.1, full .vo build) + Print Assumptions per theorem + source audit"
    rc, out = sh(f"timeout {timeout} make -j16 {vo}", cwd=COQ, timeout=timeout + 30)
    r.log = out
    if rc != 0:
        r.ok = False
        m = re.search(r'File "([^"]+)", line (\d+)[^\n]*\n(Error[^\n]*(\n[^\n]+){0,3})', out)
        r.failed.append("coq build failed: " + (m.group(0).replace("\n", " ")[:400] if m else out[-400:]))
        return r
    # Print Assumptions output follows compilation of the props file, one block per theorem in order
    tail = out.split("COQC " + props_file)[-1]
    blocks = re.findall(r"(Closed under the global context|Axioms:\n(?:.+\n)*?)(?=\s*Closed under|\s*Axioms:|\s*\Z)", tail)
    n_pa = len(re.findall(r"^\s*Print Assumptions\s+(\w+)", src, re.M))
    if n_pa < r.obligations or len(blocks) < r.obligations:
        r.ok = False
        r.failed.append(f"Print Assumptions output incomplete ({len(blocks)} blocks for {r.obligations} theorems)")
    for name, blk in zip(re.findall(r"^\s*Print Assumptions\s+(\w+)", src, re.M), blocks):
        if blk.startswith("Closed"):
            r.assumptions[name] = []
        else:
            ax = [a for a in re.findall(r"^(\S+)\s*:", blk, re.M) if a != "Axioms"]
            r.assumptions[name] = ax
            extra = [a for a in ax if a not in allowed_axioms]
            if extra:
                r.ok = False
                r.failed.append(f"theorem {name} depends on axioms outside the allow-list: {extra}")
    bad = audit_sources([os.path.join(COQ, d) for d in deps])
    if bad:
        r.ok = False
        r.failed.append("source audit: " + "; ".join(f"{os.path.relpath(f, COQ)}:{ln}:{w}" for f, ln, w in bad[:5]))
    # a theorem in the props file must be closed by `exact`
    if r.ok:
        r.discharged = r.obligations
    else:
        r.discharged = 0 if rc != 0 else max(0, r.obligations - len(r.failed))
    if thorough and r.ok:
        rc2, out2 = sh(f"timeout 900 coqchk -o -silent -Q theories DC {'DC.' + props_file[len('theories/'):-2].replace('/', '.')}",
                       cwd=COQ, timeout=930)
        r.log += "\n--- coqchk ---\n" + out2[-3000:]
        if rc2 != 0:
            r.ok = False
            r.failed.append("coqchk failed: " + out2[-300:])
        else:
            r.cmd += " + coqchk -o -silent"
    return r


# ------------------------------------------------------------------------------------------------
# Builds
# ------------------------------------------------------------------------------------------------
def ensure_driver():
    """(re)build the OCaml driver if the extracted model is newer"""
    gen = os.path.join(CACHE, "ocaml")
    os.makedirs(gen, exist_ok=True)
    ensure_makefile()
    rc, out = sh("timeout 1500 make -j16 theories/Extract/Extract.vo", cwd=COQ, timeout=1530)
    if rc != 0:
        return False, "extraction build failed: " + out[-600:]
    src_ml = os.path.join(COQ, "model.ml")
    if not os.path.exists(src_ml):
        # Extract.vo current but model.ml missing: force
        try:
            os.remove(os.path.join(COQ, "theories/Extract/Extract.vo"))
        except OSError:
            pass
        rc, out = sh("timeout 1500 make -j16 theories/Extract/Extract.vo", cwd=COQ, timeout=1530)
        if rc != 0 or not os.path.exists(src_ml):
            return False, "extraction failed: " + out[-600:]
    drv_src = os.path.join(VERIF, "ocaml", "driver.ml")
    stamp = max(os.path.getmtime(src_ml), os.path.getmtime(drv_src))
    if os.path.exists(DRIVER) and os.path.getmtime(DRIVER) >= stamp:
        return True, ""
    for f in ("model.ml", "model.mli"):
        shutil.copy(os.path.join(COQ, f), os.path.join(gen, f))
    shutil.copy(drv_src, os.path.join(gen, "driver.ml"))
    mli = open(os.path.join(gen, "model.mli")).read()
    names = re.findall(r"^val (\w+_entry) :\s*z list -> z list\s*$", mli, re.M)
    with open(os.path.join(gen, "entries.ml"), "w") as f:
        f.write("let table : (string * (Model.z list -> Model.z list)) list = [\n")
        for n in names:
            f.write(f'  ("{n}", Model.{n});\n')
        f.write("]\n")
    rc, out = sh("ocamlfind ocamlopt -O3 -unboxed-types 2>/dev/null; ocamlfind ocamlopt -w -a -inline 100 model.mli model.ml entries.ml driver.ml -o driver",
                 cwd=gen, timeout=900)
    if not os.path.exists(DRIVER) or os.path.getmtime(DRIVER) < stamp:
        return False, "ocaml build failed: " + out[-800:]
    return True, ""


def cargo_build(crate, features=(), profile="release", hook=False, tag=None):
    """build /verif/harness/<crate> against /repo's working tree; returns (binary path | None, log)"""
    tag = tag or (crate + ("-" + "-".join(features) if features else "") + ("-hook" if hook else ""))
    tdir = os.path.join(TARGET, tag)
    env = env_offline()
    env["CARGO_TARGET_DIR"] = tdir
    if hook:
        env["RUSTFLAGS"] = (env.get("RUSTFLAGS", "") + f" --cfg {GUARD}").strip()
    cmd = ["cargo", "build", "--offline", "--quiet"]
    if profile == "release":
        cmd.append("--release")
    if features:
        cmd += ["--features", ",".join(features)]
    rc, out = sh(cmd, cwd=os.path.join(VERIF, "harness", crate), env=env, timeout=1500)
    binname = "verif_" + crate
    path = os.path.join(tdir, "release" if profile == "release" else "debug", binname)
    if rc != 0 or not os.path.exists(path):
        return None, out[-2000:]
    return path, out


def run_lines(binary, lines, timeout=900, env=None, args=(), line_timeout=None):
    """feed lines to a line-oriented process; returns (rc, output lines, stderr) - the same count of output lines is expected.
    The process must answer (and flush) one line per input line. With [line_timeout] a watchdog kills it when one answer takes
    longer than that (or when the whole run exceeds [timeout]): rc = -9, the lines answered so far are returned."""
    import selectors, threading
    data = ("\n".join(lines) + "\n").encode()
    def big_stack():
        # the extracted OCaml code is not tail recursive everywhere: long traces need a deep stack
        import resource
        try:
            soft, hard = resource.getrlimit(resource.RLIMIT_STACK)
            resource.setrlimit(resource.RLIMIT_STACK, (hard, hard))
        except (ValueError, OSError):
            pass
    p = subprocess.Popen([binary, *args], stdin=subprocess.PIPE, stdout=subprocess.PIPE, stderr=subprocess.PIPE, env=env or env_offline(),
                         preexec_fn=big_stack)

    def feed():
        try:
            p.stdin.write(data); p.stdin.close()
        except (BrokenPipeError, OSError):
            pass
    errbuf = []
    threading.Thread(target=feed, daemon=True).start()
    threading.Thread(target=lambda: errbuf.append(p.stderr.read()), daemon=True).start()
    sel = selectors.DefaultSelector(); sel.register(p.stdout, selectors.EVENT_READ)
    buf = b""; t0 = time.time(); last = time.time(); killed = False
    fd = p.stdout.fileno()
    while True:
        now = time.time()
        wait = timeout - (now - t0)
        if line_timeout is not None:
            wait = min(wait, line_timeout - (now - last))
        if wait <= 0:
            p.kill(); killed = True
            break
        if not sel.select(timeout=min(wait, 5.0)):
            continue
        chunk = os.read(fd, 1 << 16)
        if not chunk:
            break
        if b"\n" in chunk:
            last = time.time()
        buf += chunk
    p.wait()
    out = buf.decode(errors="replace").split("\n")
    if out and out[-1] == "":
        out.pop()
    elif out and killed:
        out.pop()          # incomplete last line
    time.sleep(0.01)
    return (-9 if killed else p.returncode), out, (errbuf[0].decode(errors="replace") if errbuf and errbuf[0] else "")


def run_lines_isolated(binary, lines, timeout=900, env=None, line_timeout=15):
    """like run_lines, but survives aborts and hangs of the child: on a crash the offending line is marked ABORT, on an answer
    that takes longer than [line_timeout] seconds HANG, and the remaining lines are run in a new process."""
    res = []
    todo = list(lines)
    while todo:
        rc, out, err = run_lines(binary, todo, timeout=timeout, env=env, line_timeout=line_timeout)
        if rc == 0 and len(out) == len(todo):
            res += out
            break
        # process died (or was killed) after len(out) complete lines
        k = min(len(out), len(todo) - 1)
        res += out[:k]
        res.append("HANG" if rc == -9 else "ABORT")
        todo = todo[k + 1:]
    return res


# ------------------------------------------------------------------------------------------------
# Known findings
# ------------------------------------------------------------------------------------------------
def known_findings(prop_id):
    p = os.path.join(VERIF, "known_findings.json")
    try:
        d = json.load(open(p))
    except OSError:
        return []
    return [f for f in d.get("findings", []) if f.get("property") == prop_id and f.get("status") == "open"]


# ------------------------------------------------------------------------------------------------
# Result / evidence
# ------------------------------------------------------------------------------------------------
class Run:
    def __init__(self, prop_id):
        self.prop = prop_id
        self.t0 = time.time()
        self.tier = os.environ.get("VERIF_TIER", "quick")
        for i, a in enumerate(sys.argv):
            if a == "--tier" and i + 1 < len(sys.argv):
                self.tier = sys.argv[i + 1]
        if self.tier not in ("quick", "thorough"):
            self.tier = "quick"
        try:
            self.seed = int(os.environ.get("VERIF_SEED", "20261001"))
        except ValueError:
            self.seed = 20261001
        self.rng = random.Random(self.seed)
        self.violations = []       # (replay_path, no_failing_input_found: bool)
        self.known_printed = set()
        self.proof = None
        self.cov = {"evaluations": 0, "distinct_nontrivial": 0, "rule": "", "samples": [],
                    "disagreements_checked": 0, "distribution": {}}
        self.assumptions = []
        self.level = "proof"
        self.notes = []

    @property
    def thorough(self):
        return self.tier == "thorough"

    def replay_path(self, name):
        d = os.path.join(VERIF, "replay", self.prop)
        os.makedirs(d, exist_ok=True)
        return os.path.join(d, name)

    def violation(self, replay_obj, name=None, no_input=False):
        name = name or f"{self.tier}-seed{self.seed}-{len(self.violations)}.json"
        path = self.replay_path(name)
        replay_obj = dict(replay_obj)
        replay_obj.setdefault("property", self.prop)
        replay_obj.setdefault("seed", self.seed)
        replay_obj.setdefault("tier", self.tier)
        with open(path, "w") as f:
            json.dump(replay_obj, f, indent=1, default=str)
        self.violations.append((path, no_input))
        print(f"VIOLATION property={self.prop} replay={path}" + (" no-failing-input-found" if no_input else ""), flush=True)

    def known(self, finding_id, what):
        if finding_id in self.known_printed:
            return
        self.known_printed.add(finding_id)
        print(f"KNOWN-FINDING: property={self.prop} {what}", flush=True)

    def do_proof(self, props_file, allowed_axioms=()):
        self.proof = prove(self.prop, props_file, allowed_axioms, thorough=self.thorough)
        self.allowed_axioms = list(allowed_axioms)
        return self.proof

    def finish(self, extra_trusted=(), assumptions=()):
        pr = self.proof
        cov = self.cov
        # extraction cross-check: a sample of this run's model evaluations re-evaluated inside Coq (vm_compute, no extraction)
        try:
            import kernelcheck
            kc = kernelcheck.crosscheck()
            cov["extraction_crosscheck_in_coq_kernel"] = {k: v for k, v in kc.items() if k != "mismatch"}
            if kc.get("mismatch"):
                self.violation({"kind": "correspondence-broken (the extracted OCaml model and the Gallina definition evaluated inside Coq disagree on an input of this run)",
                                "correspondence": "extracted driver vs coqc vm_compute", **kc["mismatch"]}, name=f"extraction-{self.tier}.json", no_input=True)
            elif kc.get("error"):
                self.notes.append("extraction cross-check not performed: " + kc["error"])
        except Exception as ex:
            self.notes.append(f"extraction cross-check not performed: {ex}")
        if pr is not None:
            cov["obligations"] = pr.obligations
            cov["discharged"] = pr.discharged
            cov["checker_cmd"] = pr.cmd
            cov["theorems"] = pr.theorems
            cov["print_assumptions"] = {k: (v if v else "Closed under the global context") for k, v in pr.assumptions.items()}
            if pr.failed:
                cov["proof_failures"] = pr.failed
        cov["trusted_base"] = TRUSTED_BASE_COMMON + list(extra_trusted)
        ev = {
            "property_id": self.prop, "tier": self.tier, "seed": self.seed, "level": self.level,
            "coverage": cov, "assumptions": list(assumptions) + self.assumptions,
            "wall_s": round(time.time() - self.t0, 2), "violations": len(self.violations),
            "known_findings_reproduced": sorted(self.known_printed), "notes": self.notes,
        }
        os.makedirs(os.path.join(VERIF, "evidence"), exist_ok=True)
        with open(os.path.join(VERIF, "evidence", f"{self.prop}.json"), "w") as f:
            json.dump(ev, f, indent=1, default=str)
        print(f"[{self.prop}] tier={self.tier} seed={self.seed} obligations={cov.get('obligations')} "
              f"discharged={cov.get('discharged')} evaluations={cov['evaluations']} "
              f"violations={len(self.violations)} wall={ev['wall_s']}s", flush=True)
        sys.exit(1 if self.violations else 0)


def proof_failure_violation(run, found_failing_input):
    """called at the end when a proof obligation no longer checks and no failing input was found"""
    pr = run.proof
    if pr is None or pr.ok or found_failing_input:
        return
    run.violation({"kind": "proof-obligation-no-longer-checks", "failures": pr.failed,
                   "theorems": pr.theorems, "log_tail": pr.log[-3000:],
                   "rerun": f"cd /verif && python3 bin/check.py {run.prop} --tier {run.tier}"},
                  name=f"proof-{run.tier}.json", no_input=True)


# ------------------------------------------------------------------------------------------------
# Generic 3-way differential for integer-coded families
# ------------------------------------------------------------------------------------------------
def fmt(ints):
    return " ".join(str(x) for x in ints)


class Case:
    """prefix: fixed leading ints; ops: list of int tuples (the shrinkable part)"""
    __slots__ = ("fam", "prefix", "ops", "meta")

    def __init__(self, fam, prefix, ops, meta=None):
        self.fam = fam; self.prefix = list(prefix); self.ops = [tuple(o) for o in ops]; self.meta = meta or {}

    def ints(self):
        out = list(self.prefix)
        for o in self.ops:
            out.extend(o)
        return out

    def line(self, head):
        return head + " " + fmt(self.ints())

    def key(self):
        return (self.fam, tuple(self.prefix), tuple(self.ops))

    def to_json(self):
        return {"family": self.fam, "prefix": self.prefix, "ops": [list(o) for o in self.ops], "meta": self.meta}

    @staticmethod
    def from_json(d):
        return Case(d["family"], d["prefix"], d["ops"], d.get("meta"))

    def with_ops(self, ops):
        return Case(self.fam, self.prefix, ops, self.meta)


def ddmin(case, still_fails_batch, max_rounds=40, budget_s=60):
    """delta-debug the op list. still_fails_batch(list of Case) -> list of bool. Shrinking stops after [budget_s] seconds (a
    mutant that makes the implementation hang costs seconds per candidate): the smallest failing case found so far is reported"""
    cur = case
    n = 2
    rounds = 0
    t_end = time.time() + budget_s
    while len(cur.ops) >= 2 and rounds < max_rounds and time.time() < t_end:
        rounds += 1
        L = len(cur.ops)
        chunk = max(1, L // n)
        cands = []
        for i in range(0, L, chunk):
            cands.append(cur.with_ops(cur.ops[:i] + cur.ops[i + chunk:]))
        res = still_fails_batch(cands)
        hit = None
        for c, r in zip(cands, res):
            if r:
                hit = c; break
        if hit is not None:
            cur = hit
            n = max(n - 1, 2)
        else:
            if chunk == 1:
                break
            n = min(L, n * 2)
    return cur


def driver_eval(lines, timeout=1800):
    rc, out, err = run_lines(DRIVER, lines, timeout=timeout)
    if rc != 0 or len(out) != len(lines):
        raise RuntimeError(f"driver failed rc={rc} ({len(out)}/{len(lines)} lines): {err[-500:]}")
    try:
        import kernelcheck
        kernelcheck.offer(lines, out)
    except Exception:
        pass
    return out


class Differential:
    """impl (one or more builds) vs extracted model vs executable spec, on integer-coded cases."""

    def __init__(self, run, bins, model_entry, spec_entry, oracle=None, known=None, nontrivial=None,
                 harness_head=None, isolated=False, describe=None, max_reports=3, applicable=None, check_entry=None):
        self.run = run; self.bins = bins
        self.model_entry = model_entry; self.spec_entry = spec_entry
        if oracle is None and check_entry is not None:
            oracle = lambda case, impl, spec: None if spec == "checker:1" else f"proved checker rejected impl output {impl!r}: {spec}"
        self.oracle = oracle or (lambda case, impl, spec: None if impl == spec else f"impl={impl!r} spec={spec!r}")
        self.known = known or (lambda case, impl, model, spec: None)
        self.nontrivial = nontrivial or (lambda case: len(case.ops) >= 2)
        self.harness_head = harness_head or (lambda case: case.fam)
        self.isolated = isolated
        self.check_entry = check_entry   # checker-style oracle: entry(case ints ++ impl output ints) must return 1
        self.applicable = applicable or (lambda case, build: True)
        self.describe = describe or (lambda case: case.to_json())
        self.max_reports = max_reports
        self.real = 0
        self.corr_only = []
        self.seen = set()

    def eval_cases(self, cases):
        """returns per case: dict(build -> impl line), model line, spec line"""
        hl = [c.line(self.harness_head(c)) for c in cases]
        impl = {}
        for b, path in self.bins.items():
            if self.isolated:
                impl[b] = run_lines_isolated(path, hl)
            else:
                rc, out, err = run_lines(path, hl, line_timeout=15)
                if rc != 0 or len(out) != len(hl):
                    impl[b] = run_lines_isolated(path, hl)
                else:
                    impl[b] = out
        dl = []
        for c in cases:
            dl.append(c.line(self.model_entry(c)) if self.model_entry else "")
            se = self.spec_entry(c) if self.spec_entry else None
            dl.append(c.line(se) if se else "")
        dout = driver_eval(dl)
        model = dout[0::2]; spec1 = dout[1::2]
        if not self.model_entry:
            model = [None] * len(cases)     # no step-by-step model: the oracle (proved checker) alone decides
        spec = {}
        for b in self.bins:
            if self.check_entry:
                cl = []
                for i, c in enumerate(cases):
                    il = impl[b][i]
                    ok = bool(il) and all(t.lstrip("-").isdigit() for t in il.split())
                    cl.append(f"{self.check_entry(c)} {len(il.split())} " + fmt(c.ints()) + " " + il if ok else "")
                co = driver_eval(cl)
                spec[b] = ["checker:" + (co[i] if cl[i] else "unparsable-impl-output") for i in range(len(cases))]
            else:
                spec[b] = spec1
        return impl, model, spec

    def judge(self, case, impl_line, model_line, spec_line):
        """-> (corr_ok, oracle_failure or None, known id or None)"""
        corr_ok = (model_line is None) or (impl_line == model_line)
        self.current_model_line = model_line      # oracles justified by a model theorem may consult the model's output
        of = self.oracle(case, impl_line, spec_line)
        kn = None
        if of is not None and corr_ok:
            kn = self.known(case, impl_line, model_line, spec_line)
        return corr_ok, of, kn

    def process(self, cases):
        run = self.run
        impl, model, spec = self.eval_cases(cases)
        for i, c in enumerate(cases):
            run.cov["evaluations"] += 1
            k = c.key()
            if k not in self.seen:
                self.seen.add(k)
                if self.nontrivial(c):
                    run.cov["distinct_nontrivial"] += 1
            for b in self.bins:
                if not self.applicable(c, b):
                    continue
                il = impl[b][i]
                corr_ok, of, kn = self.judge(c, il, model[i], spec[b][i])
                if corr_ok and of is None:
                    continue
                run.cov["disagreements_checked"] += 1
                if of is not None and kn is not None and listed_open(run.prop, kn[0]):
                    run.known(kn[0], kn[1])
                    continue
                if of is not None:
                    if self.real < self.max_reports:
                        self.report_real(c, b, of)
                    self.real += 1
                else:
                    self.corr_only.append((c, b, il, model[i]))

    def report_real(self, case, build, why):
        run = self.run

        def fails(cands):
            impl, model, spec = self.eval_cases(cands)
            res = []
            for i, c in enumerate(cands):
                il = impl[build][i]
                corr_ok, of, kn = self.judge(c, il, model[i], spec[b][i])
                res.append(of is not None and kn is None)
            return res
        small = ddmin(case, lambda cs: [r for r in fails_only(self, cs, build)], budget_s=getattr(self, 'shrink_budget_s', 60))
        impl, model, spec = self.eval_cases([small])
        self.current_model_line = model[0]
        run.violation({
            "kind": "property-oracle-failed-on-implementation",
            "build": build, "case": self.describe(small), "original_case_ops": len(case.ops),
            "harness_line": small.line(self.harness_head(small)),
            "implementation_output": impl[build][0], "model_output": model[0], "spec_expected": spec[build][0],
            "why": self.oracle(small, impl[build][0], spec[build][0]),
            "rerun": f"cd /verif && python3 bin/check.py {run.prop} --replay <this file>",
        })

    def finish(self):
        """after all batches: report correspondence-only breaks (no failing input found)"""
        run = self.run
        if self.real == 0 and self.corr_only:
            c, b, il, ml = self.corr_only[0]

            def differs(cands):
                impl, model, spec = self.eval_cases(cands)
                return [impl[b][i] != model[i] for i in range(len(cands))]
            small = ddmin(c, differs, budget_s=getattr(self, 'shrink_budget_s', 60))
            impl, model, spec = self.eval_cases([small])
            run.violation({
                "kind": "correspondence-broken (model and implementation disagree; the property oracle held on every explored input)",
                "correspondence": f"{self.model_entry(small)} vs harness family {small.fam} (build {b})",
                "first_differing_case": self.describe(small),
                "harness_line": small.line(self.harness_head(small)),
                "implementation_output": impl[b][0], "model_output": model[0], "spec_expected": spec[b][0],
                "differing_cases_total": len(self.corr_only),
            }, name=f"corr-{run.tier}.json", no_input=True)
        return self.real > 0


def fails_only(diff, cands, build):
    impl, model, spec = diff.eval_cases(cands)
    res = []
    for i, c in enumerate(cands):
        il = impl[build][i]
        corr_ok, of, kn = diff.judge(c, il, model[i], spec[build][i])
        res.append(of is not None and not (kn is not None and listed_open(diff.run.prop, kn[0])))
    return res


def listed_open(prop, fid):
    return any(f.get("id") == fid for f in known_findings(prop))


def fatal(run, what, detail):
    """infrastructure failure (build of harness against the current tree failed etc.)"""
    run.violation({"kind": "check-could-not-run", "what": what, "detail": detail[-3000:]},
                  name=f"infra-{run.tier}.json", no_input=True)
    run.finish()


def generic_replay(diff, path):
    d = json.load(open(path))
    cj = d.get("case") or d.get("first_differing_case")
    if cj is None:
        print("replay file names a proof obligation / infrastructure failure, not an input:", d.get("kind")); print(json.dumps(d, indent=1)[:3000])
        return 1
    case = Case.from_json(cj)
    impl, model, spec = diff.eval_cases([case])
    bad = False
    for b in diff.bins:
        if not diff.applicable(case, b):
            continue
        diff.current_model_line = model[0]
        of = diff.oracle(case, impl[b][0], spec[b][0])
        print(f"[{b}] impl : {impl[b][0]}\n[{b}] spec : {spec[b][0]}\n[{b}] oracle: {'FAIL ' + str(of) if of else 'ok'}; correspondence: {'ok' if model[0] in (None, impl[b][0]) else 'DIFFERS'}")
        bad = bad or of is not None or model[0] not in (None, impl[b][0])
    print("model:", model[0])
    print("REPRODUCED" if bad else "not reproduced")
    return 1 if bad else 0
