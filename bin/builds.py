# (crate, features, profile, hook) built by setup so that the first quick check is fast
BUILDS = [
    ("ds", (), "release", False),
    ("ds", ("unsafe",), "release", False),
    ("dc", (), "release", False),
    ("ring", (), "release", True),
    ("win", (), "release", False),
    ("win", ("unsafe",), "release", False),
    ("win", ("unsafe",), "dev", False),
]
