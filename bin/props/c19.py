"""C19 — BitMap tracks each sequence residue independently."""
import json, subprocess
from vlib import *

PROPS = "theories/Props/C19.v"
KF_D1 = "C19-D1-bitmap-aliasing"


def gen_cases(run):
    rng = run.rng
    cases = []
    dist = {"capacities": {}, "ops": {"set": 0, "unset": 0, "is_set": 0}, "exhaustive_pairs_caps": []}
    big = [2**63, 2**64 - 1, 2**32, 2**63 - 1]
    # 1. exhaustive all ordered pairs of residues for small capacities: set a / query all; then unset
    pair_caps = [1, 2, 4, 8, 16, 32, 64, 128, 256] if run.thorough else [1, 2, 4, 8, 64, 128]
    for c in pair_caps:
        dist["exhaustive_pairs_caps"].append(c)
        for a in range(c):
            # set a (shifted by a random multiple of c), then query every residue, then set b.. etc
            ops = [(0, a + c * rng.randrange(0, 1 << 20))]
            ops += [(2, r) for r in range(c)]
            b = rng.randrange(c)
            ops += [(0, b), (1, a + c * rng.randrange(0, 1 << 40))]
            ops += [(2, r + c * rng.randrange(0, 4)) for r in range(c)]
            cases.append(Case("bitmap", [c], ops, {"kind": "pairs"}))
    # 2. random histories
    n_rand = 4000 if run.thorough else 400
    for _ in range(n_rand):
        k = rng.choice([0, 1, 2, 3, 4, 5, 6, 7, 8, 9, 10, 11, 12, 13, 14, 15, 16, 16, 17, 18, 20])
        c = 1 << k
        L = rng.randrange(1, 200 if run.thorough else 80)
        # work on a small pool of residues so that classes collide often; half of the pool are "relatives" of the first
        # residue (one index bit flipped: half / quarter of the capacity apart, neighbouring words), the aliases a wrong mask or
        # shift would produce
        pool = [rng.randrange(c) for _ in range(rng.randrange(1, 6))]
        for _ in range(rng.randrange(0, 5)):
            if k > 0: pool.append(pool[0] ^ (1 << rng.randrange(0, k)))
        ops = []
        for _ in range(L):
            r = rng.choice(pool) if rng.random() < 0.8 else rng.randrange(c)
            lap = rng.choice([0, 0, 1, 2, rng.randrange(0, 1 << 30)])
            s = r + c * lap
            if rng.random() < 0.05:
                s = rng.choice(big) - rng.randrange(0, 3)
            o = rng.choices([0, 1, 2], [3, 2, 5])[0]
            ops.append((o, s))
        # final sweep over a window of residues
        base = rng.choice(pool)
        ops += [(2, (base + d) % c) for d in range(min(c, 70))]
        ops += [(2, r) for r in pool]
        cases.append(Case("bitmap", [c], ops, {"kind": "random"}))
    for cs in cases:
        dist["capacities"][cs.prefix[0]] = dist["capacities"].get(cs.prefix[0], 0) + 1
        for o in cs.ops:
            dist["ops"][["set", "unset", "is_set"][o[0]]] += 1
    return cases, dist


def known(case, impl, model, spec):
    return None   # D1 is fixed in /repo; a recurrence is a violation


def build(run):
    b1, log = cargo_build("ds")
    if not b1:
        fatal(run, "cargo build of harness/ds against /repo failed", log)
    # the crate feature `unsafe` selects other code in several modules of dcl_data_structures: the same cases run against that build too
    b2, log2 = cargo_build("ds", ("unsafe",), "release")
    if not b2:
        fatal(run, "cargo build of harness/ds (feature unsafe) against /repo failed", log2)
    return {"release": b1, "unsafe": b2}


def corpus_cases():
    out = []
    p = os.path.join(VERIF, "corpus", "C19")
    if os.path.isdir(p):
        for f in sorted(os.listdir(p)):
            out.append(Case.from_json(json.load(open(os.path.join(p, f)))))
    return out



# ------------------------------------------------------------------------------------------------------------------
# concurrent phase: several threads work on ONE BitMap, each on its own residues (same 64-bit words), under the
# deterministic scheduler of harness/ring (hooked build: every atomic operation is a scheduling point and is logged)
# ------------------------------------------------------------------------------------------------------------------
def gen_concurrent(run):
    rng = run.rng
    lines = []; metas = []
    n = 1500 if run.thorough else 200
    for _ in range(n):
        cap = rng.choice([2, 4, 8, 8, 16, 64, 128, 256])
        nt = rng.choice([2, 2, 3]) if cap >= 4 else 2
        # thread w owns the residues congruent to w modulo nt among the first few residues (so they share words)
        window = min(cap, rng.choice([4, 8, 16, 70]))
        progs = []; expect = {}
        for w in range(nt):
            mine = [r for r in range(window) if r % nt == w]
            ops = []
            for _k in range(rng.randrange(1, 7)):
                if not mine: break
                r = rng.choice(mine); o = rng.choices([0, 1], [3, 2])[0]
                q = r + cap * rng.choice([0, 0, 1, 2, rng.randrange(0, 1 << 20)])
                ops.append((o, q)); expect[r] = 1 if o == 0 else 0
            progs.append(ops)
        seed = rng.randrange(1, 1 << 30); strategy = rng.choice([0, 0, 1, 2])
        toks = [1000000, cap, nt]
        for ops in progs:
            toks.append(len(ops))
            for o, q in ops: toks += [o, q]
        toks += [seed, strategy, 4000]
        lines.append(" ".join(str(t) for t in toks)); metas.append({"cap": cap, "progs": progs, "expect": expect})
    return lines, metas


def run_concurrent(run):
    from ringlib import ring_binary
    binary = ring_binary(run)
    lines, metas = gen_concurrent(run)
    todo = list(zip(lines, metas)); results = []
    while todo:
        p = subprocess.run([binary], input="\n".join(l for l, _ in todo) + "\n", stdout=subprocess.PIPE, stderr=subprocess.PIPE, text=True,
                           timeout=600, env=env_offline())
        chunks = p.stdout.split("END\n")
        done = 0
        for ch in chunks:
            if not ch.strip(): continue
            results.append((todo[done], ch)); done += 1
        if done == 0: fatal(run, "harness/ring produced no output in BitMap mode", p.stderr[-800:])
        todo = todo[done:]          # the harness exits after an aborted run: restart with the rest
    dist = {"concurrent_histories": len(results), "threads": {}, "capacities": {}, "ops_total": 0, "outcomes": {}}
    n_ok = 0; corr_fail = None
    for (line, meta), out in results:
        rows = out.strip().split("\n")
        head = rows[0].split(); outcome = int(head[1])
        dist["outcomes"][outcome] = dist["outcomes"].get(outcome, 0) + 1
        dist["threads"][len(meta["progs"])] = dist["threads"].get(len(meta["progs"]), 0) + 1
        dist["capacities"][meta["cap"]] = dist["capacities"].get(meta["cap"], 0) + 1
        dist["ops_total"] += sum(len(p) for p in meta["progs"])
        run.cov["evaluations"] += 1
        events = [list(map(int, r.split()[1:])) for r in rows if r.startswith("E ")]
        sched = next((r.split()[1:] for r in rows if r.startswith("SCHED")), [])
        bits = next((list(map(int, r.split()[1:])) for r in rows if r.startswith("BITS")), None)
        replay_line = " ".join(line.split() + list(sched))
        if outcome != 1 or bits is None:
            run.violation({"kind": "property-oracle-failed-on-implementation", "why": f"the BitMap threads did not all finish (outcome {outcome}: 2 deadlock, 3 step budget, 5 panic)",
                           "harness_line": replay_line}); return dist
        # correspondence: every set is ONE fetch_or and every unset ONE fetch_and (SeqCst) on a word - the atomicity the model assumes
        per = {}
        for e in events:
            tid, kind = e[0], e[1]
            if kind == 30: per[tid] = []
            elif kind in (1, 2, 3, 5, 6) and tid in per and per[tid] is not None: per[tid].append((kind, e[4]))
            elif kind == 31:
                want = 5 if e[6] == 0 else 6
                if per.get(tid) != [(want, 4)] and corr_fail is None:
                    corr_fail = {"kind": "correspondence-broken (BitMap/Model.v assumes each set / unset is one atomic read-modify-write of one word; the hooked implementation did something else; every residue still ended as the property demands on every explored schedule)",
                                 "correspondence": "BitMap call = one fetch_or / fetch_and (SeqCst)", "why": f"thread {tid}: call op={e[6]} seq={e[7]} performed atomic operations {per.get(tid)} (kind, ordering) instead of [({want}, 4)]",
                                 "harness_line": replay_line}
                per[tid] = None
        # the property: every residue tests as set exactly when the last call addressed to it was a set, whatever the interleaving
        bad = [(r, v, bits[r]) for r, v in sorted(meta["expect"].items()) if r < len(bits) and bits[r] != v]
        untouched = [r for r in range(len(bits)) if r not in meta["expect"] and bits[r] != 0]
        if bad or untouched:
            run.violation({"kind": "property-oracle-failed-on-implementation",
                           "why": f"concurrent calls on DISTINCT residues interfered: (residue, expected, observed) {bad[:6]}; never-addressed residues that test as set: {untouched[:6]}",
                           "capacity": meta["cap"], "programs": meta["progs"], "schedule": sched, "harness_line": replay_line,
                           "rerun": "feed harness_line to .cache/target/ring-hook/release/verif_ring (hooked build) - the schedule is replayed"})
            return dist
        n_ok += 1
    dist["concurrent_histories_ok"] = n_ok
    if corr_fail is not None:
        run.violation(corr_fail, name=f"corr-{run.tier}.json", no_input=True)
    return dist


def main():
    run = Run("C19")
    run.do_proof(PROPS)
    ok, msg = ensure_driver()
    if not ok:
        fatal(run, "model extraction / driver build", msg)
    bins = build(run)
    cases, dist = gen_cases(run)
    cases = corpus_cases() + cases
    d = Differential(run, bins, lambda c: "bitmap_model_entry", lambda c: "bitmap_spec_entry", known=known,
                     nontrivial=lambda c: sum(1 for o in c.ops if o[0] != 2) >= 2)
    B = 500
    for i in range(0, len(cases), B):
        d.process(cases[i:i + B])
    found = d.finish()
    conc_dist = run_concurrent(run) if not run.violations else {}
    proof_failure_violation(run, found or run.violations)
    run.cov["rule"] = ("capacity 2^k (k=0..20, 65536 twice as likely); histories of set/unset/is_set over a small pool of residues with lap offsets up to 2^63; "
                       "exhaustive: for each small capacity every residue a: set a, query all residues, unset a, query all. "
                       "Non-trivial = at least two mutating operations; distinct by (capacity, op list). CONCURRENT PHASE: 2-3 threads, each with its own residues inside shared words, "
                       "run on one BitMap under the deterministic scheduler of harness/ring (hooked build); oracles: every call is exactly one SeqCst fetch_or / fetch_and, and every residue ends as its owner's last call left it")
    dist.update(conc_dist)
    run.cov["distribution"] = dist
    run.cov["samples"] = [cases[0].to_json(), cases[-1].to_json()]
    run.cov["samples"][1]["ops"] = run.cov["samples"][1]["ops"][:30]
    run.finish(extra_trusted=["std AtomicU64 fetch_or/fetch_and/load modelled as whole-word N.lor/N.land/read (single-threaded histories)"],
               assumptions=["sequence numbers < 2^64; capacity a power of two (the ring buffer guarantees it; other capacities are outside the property)",
                            "concurrent use: each operation is one atomic RMW on one word; commutation of distinct residues is the theorem C19_distinct_residues_commute"])


def replay(path):
    dj = json.load(open(path))
    hl = dj.get("harness_line", "")
    if hl.startswith("1000000 "):
        # concurrent history: re-run it (the recorded schedule is replayed) and judge the final bits again
        from ringlib import ring_binary
        run = Run("C19"); binary = ring_binary(run)
        v = [int(t) for t in hl.split()]
        cap, nt = v[1], v[2]; p = 3; expect = {}
        for _w in range(nt):
            n = v[p]; p += 1
            for _k in range(n):
                o, q = v[p], v[p + 1]; p += 2; expect[q % cap] = 1 if o == 0 else 0
        pr = subprocess.run([binary], input=hl + "\n", stdout=subprocess.PIPE, stderr=subprocess.PIPE, text=True, timeout=120, env=env_offline())
        bits = next((list(map(int, r.split()[1:])) for r in pr.stdout.split("\n") if r.startswith("BITS")), None)
        print("expected (residue -> bit):", dict(sorted(expect.items())), "\nobserved bits:", bits)
        bad = bits is None or any(r < len(bits) and bits[r] != e for r, e in expect.items())
        print("REPRODUCED" if bad else "not reproduced")
        return 1 if bad else 0
    run = Run("C19"); ensure_driver(); bins = build(run)
    return generic_replay(Differential(run, bins, lambda c: "bitmap_model_entry", lambda c: "bitmap_spec_entry"), path)
