"""C19 — BitMap tracks each sequence residue independently."""
import json
from vlib import *

PROPS = "theories/Props/C19.v"
KF_D1 = "C19-D1-bitmap-aliasing"


def gen_cases(run):
    rng = run.rng
    cases = []
    dist = {"capacities": {}, "ops": {"set": 0, "unset": 0, "is_set": 0}, "exhaustive_pairs_caps": []}
    big = [2**63, 2**64 - 1, 2**32, 2**63 - 1]
    # 1. exhaustive all ordered pairs of residues for small capacities: set a / query all; then unset
    pair_caps = [1, 2, 4, 8, 16, 32, 64, 128, 256] if run.thorough else [1, 2, 4, 8, 64, 128]
    for c in pair_caps:
        dist["exhaustive_pairs_caps"].append(c)
        for a in range(c):
            # set a (shifted by a random multiple of c), then query every residue, then set b.. etc
            ops = [(0, a + c * rng.randrange(0, 1 << 20))]
            ops += [(2, r) for r in range(c)]
            b = rng.randrange(c)
            ops += [(0, b), (1, a + c * rng.randrange(0, 1 << 40))]
            ops += [(2, r + c * rng.randrange(0, 4)) for r in range(c)]
            cases.append(Case("bitmap", [c], ops, {"kind": "pairs"}))
    # 2. random histories
    n_rand = 4000 if run.thorough else 400
    for _ in range(n_rand):
        k = rng.choice([0, 1, 2, 3, 4, 5, 6, 7, 8, 9, 10, 11, 12])
        c = 1 << k
        L = rng.randrange(1, 200 if run.thorough else 80)
        # work on a small pool of residues so that classes collide often
        pool = [rng.randrange(c) for _ in range(rng.randrange(1, 9))]
        ops = []
        for _ in range(L):
            r = rng.choice(pool) if rng.random() < 0.8 else rng.randrange(c)
            lap = rng.choice([0, 0, 1, 2, rng.randrange(0, 1 << 30)])
            s = r + c * lap
            if rng.random() < 0.05:
                s = rng.choice(big) - rng.randrange(0, 3)
            o = rng.choices([0, 1, 2], [3, 2, 5])[0]
            ops.append((o, s))
        # final sweep over a window of residues
        base = rng.choice(pool)
        ops += [(2, (base + d) % c) for d in range(min(c, 70))]
        cases.append(Case("bitmap", [c], ops, {"kind": "random"}))
    for cs in cases:
        dist["capacities"][cs.prefix[0]] = dist["capacities"].get(cs.prefix[0], 0) + 1
        for o in cs.ops:
            dist["ops"][["set", "unset", "is_set"][o[0]]] += 1
    return cases, dist


def known(case, impl, model, spec):
    return None   # D1 is fixed in /repo; a recurrence is a violation


def build(run):
    b1, log = cargo_build("ds")
    if not b1:
        fatal(run, "cargo build of harness/ds against /repo failed", log)
    return {"release": b1}


def corpus_cases():
    out = []
    p = os.path.join(VERIF, "corpus", "C19")
    if os.path.isdir(p):
        for f in sorted(os.listdir(p)):
            out.append(Case.from_json(json.load(open(os.path.join(p, f)))))
    return out


def main():
    run = Run("C19")
    run.do_proof(PROPS)
    ok, msg = ensure_driver()
    if not ok:
        fatal(run, "model extraction / driver build", msg)
    bins = build(run)
    cases, dist = gen_cases(run)
    cases = corpus_cases() + cases
    d = Differential(run, bins, lambda c: "bitmap_model_entry", lambda c: "bitmap_spec_entry", known=known,
                     nontrivial=lambda c: sum(1 for o in c.ops if o[0] != 2) >= 2)
    B = 500
    for i in range(0, len(cases), B):
        d.process(cases[i:i + B])
    found = d.finish()
    proof_failure_violation(run, found or run.violations)
    run.cov["rule"] = ("capacity 2^k (k=0..12); histories of set/unset/is_set over a small pool of residues with lap offsets up to 2^63; "
                       "exhaustive: for each small capacity every residue a: set a, query all residues, unset a, query all. "
                       "Non-trivial = at least two mutating operations; distinct by (capacity, op list)")
    run.cov["distribution"] = dist
    run.cov["samples"] = [cases[0].to_json(), cases[-1].to_json()]
    run.cov["samples"][1]["ops"] = run.cov["samples"][1]["ops"][:30]
    run.finish(extra_trusted=["std AtomicU64 fetch_or/fetch_and/load modelled as whole-word N.lor/N.land/read (single-threaded histories)"],
               assumptions=["sequence numbers < 2^64; capacity a power of two (the ring buffer guarantees it; other capacities are outside the property)",
                            "concurrent use: each operation is one atomic RMW on one word; commutation of distinct residues is the theorem C19_distinct_residues_commute"])


def replay(path):
    run = Run("C19"); ensure_driver(); bins = build(run)
    return generic_replay(Differential(run, bins, lambda c: "bitmap_model_entry", lambda c: "bitmap_spec_entry"), path)
