"""C17 — ArrayGrid obeys the store/load law in every dimension."""
import json, itertools
from vlib import *

PROPS = "theories/Props/C17.v"
SHAPES_BIG = [(300,300,1,1),(42,41,40,1),(17,16,17,16),(1,70000,1,1)]
SHAPES = [(1,1,1,1),(1,1,1,2),(1,1,2,1),(1,2,1,1),(2,1,1,1),(1,2,3,1),(3,2,1,1),(1,1,3,2),
          (2,2,2,2),(1,2,3,4),(4,3,2,1),(2,3,1,2),(3,1,2,2),(2,1,3,1),(3,3,1,2),(1,3,2,3),
          (2,3,4,5),(5,4,3,2),(3,5,2,4),(4,2,5,3),(2,2,3,3),(3,3,2,2),(3,2,3,2),(2,3,2,3),
          (3,3,3,3),(5,1,1,1),(1,5,1,1),(1,1,5,1),(1,1,1,5),(5,5,2,2),(2,2,5,5),(4,4,4,4)]


def cells(kind, W, H, D, C):
    """all in-bounds points (x,y,z,t) under the code's per-axis condition"""
    if kind == 1:
        return [(x, 0, 0, 0) for x in range(H)]
    if kind == 2:
        return [(x, y, 0, 0) for y in range(H) for x in range(W)]
    if kind == 3:
        return [(x, y, z, 0) for y in range(D) for x in range(H) for z in range(W)]
    return [(x, y, z, t) for y in range(C) for x in range(D) for z in range(H) for t in range(W)]


def gen_cases(run):
    rng = run.rng
    cases = []
    dist = {"kinds": {1: 0, 2: 0, 3: 0, 4: 0}, "all_pairs_cases": 0, "random_cases": 0, "oob_cases": 0, "ops": 0}
    shapes = SHAPES if run.thorough else [s for s in SHAPES if s[0] * s[1] * s[2] * s[3] <= 120]
    for (W, H, D, C) in shapes:
        for kind in (1, 2, 3, 4):
            cs = cells(kind, W, H, D, C)
            if len(cs) <= (300 if run.thorough else 40):
                # all pairs: for every p: store at p, then sweep every cell
                for p in cs:
                    v = rng.randrange(1, 10**6)
                    ops = [(0, *p, v)] + [(1, *q) for q in cs]
                    cases.append(Case("grid", [kind, W, H, D, C], ops, {"kind": "all-pairs"}))
                    dist["all_pairs_cases"] += 1
            # random store sequences with loads in between and a final sweep
            for _ in range(6 if run.thorough else 2):
                ops = []
                hot = [rng.choice(cs) for _ in range(rng.randrange(1, 5))]
                for _ in range(rng.randrange(1, 40)):
                    p = rng.choice(hot) if rng.random() < 0.6 else rng.choice(cs)
                    if rng.random() < 0.6:
                        ops.append((0, *p, rng.randrange(-10**9, 10**9)))
                    else:
                        ops.append((1, *p))
                ops += [(1, *q) for q in (cs if len(cs) <= 130 else rng.sample(cs, 130))]
                nz = rng.random() < 0.4        # element type whose Default is not the all-zero bit pattern (harness family gridnz)
                cases.append(Case("grid", [kind, W, H, D, C], ops, {"kind": "random", "nz": nz}))
                dist["random_cases"] += 1
                if nz: dist["non_zero_default_cases"] = dist.get("non_zero_default_cases", 0) + 1
            # out of bounds on one axis: both sides must panic
            if rng.random() < 0.5:
                p = list(rng.choice(cs))
                ax = {1: [0], 2: [0, 1], 3: [0, 1, 2], 4: [0, 1, 2, 3]}[kind]
                a = rng.choice(ax)
                p[a] = max(W, H, D, C) + rng.randrange(0, 3)
                q = rng.choice(cs)
                ops = [(0, *q, 5), (1, *q), (rng.choice([0, 1]), *p)]
                if ops[-1][0] == 0:
                    ops[-1] = ops[-1] + (9,)
                cases.append(Case("grid", [kind, W, H, D, C], ops, {"kind": "oob"}))
                dist["oob_cases"] += 1
    # LARGE grids (more than 65 536 cells): stores at random points and at points whose flattened index differs by 65 536 (and by
    # 256) from an earlier one under the storage's nesting order, then loads of everything that was stored
    BIG = {1: (1, 70000, 1, 1), 2: (300, 300, 1, 1), 3: (42, 41, 40, 1), 4: (17, 16, 17, 16)}
    for kind in ((1, 2, 3, 4) if run.thorough else (2, rng.choice([1, 3, 4]))):
        W, H, D, C = BIG[kind]
        def unflat(f):
            if kind == 1: return (f % H, 0, 0, 0)
            if kind == 2: return (f % W, (f // W) % H, 0, 0)
            if kind == 3: z = f % W; x = (f // W) % H; y = (f // (W * H)) % D; return (x, y, z, 0)
            t = f % W; z = (f // W) % H; x = (f // (W * H)) % D; y = (f // (W * H * D)) % C; return (x, y, z, t)
        total = {1: H, 2: W * H, 3: W * H * D, 4: W * H * D * C}[kind]
        pts = []
        for _ in range(10):
            f = rng.randrange(0, total)
            for df in (0, 65536, -65536, 256, 65536 * 2 - total):
                g2 = f + df
                if 0 <= g2 < total: pts.append(unflat(g2))
        pts = list(dict.fromkeys(pts))
        ops = [(0, *p, 1000 + i) for i, p in enumerate(pts)] + [(1, *p) for p in pts]
        cases.append(Case("grid", [kind, W, H, D, C], ops, {"kind": "large"}))
        dist["large_grid_cases"] = dist.get("large_grid_cases", 0) + 1
    for c in cases:
        dist["kinds"][c.prefix[0]] += 1
        dist["ops"] += len(c.ops)
    return cases, dist


def builds(run):
    out = {}
    for tag, feats in (("safe", ()), ("unsafe", ("unsafe",))):
        b, log = cargo_build("ds", feats, "release")
        if not b:
            fatal(run, f"cargo build of harness/ds ({tag}) against /repo failed", log)
        out[tag] = b
    return out


def mk_diff(run, bins):
    return Differential(run, bins, lambda c: "grid_model_entry", lambda c: "grid_spec_entry",
                        harness_head=lambda c: "gridnz" if c.meta.get("nz") else "grid",
                        nontrivial=lambda c: sum(1 for o in c.ops if o[0] == 0) >= 1 and len(c.ops) >= 3)


def main():
    run = Run("C17")
    run.do_proof(PROPS)
    ok, msg = ensure_driver()
    if not ok:
        fatal(run, "model extraction / driver build", msg)
    bins = builds(run)
    cases, dist = gen_cases(run)
    d = mk_diff(run, bins)
    B = 2000
    for i in range(0, len(cases), B):
        d.process(cases[i:i + B])
    found = d.finish()
    recover_phase(run, bins)
    proof_failure_violation(run, found or run.violations)
    run.cov["rule"] = ("case = (dimension kind 1..4, extents W H D C from a fixed grid of 32 shapes, op list of stores/loads); all-pairs: for every in-bounds "
                       "point p: store at p then load EVERY cell; random store sequences with interleaved loads and a final sweep; out-of-bounds accesses; "
                       "safe (RefCell) and unsafe (raw pointer) builds. Non-trivial = at least one store and three ops")
    run.cov["distribution"] = dist
    s0 = cases[0].to_json(); s0["ops"] = s0["ops"][:10]
    s1 = cases[len(cases) // 2].to_json(); s1["ops"] = s1["ops"][:10]
    run.cov["samples"] = [s0, s1]
    run.cov["exhaustive"] = False
    run.finish(extra_trusted=["Rust fixed-size nested arrays modelled as nested lists (index = nth_error / upd); RefCell and the raw-pointer write as plain cell update"],
               assumptions=["single-threaded use (the unsafe grid's interior mutation through a shared reference is not modelled concurrently)"])


def recover_phase(run, bins):
    """the grid is USED ON after an out-of-bounds access that panicked and was caught (every operation on its own, harness family
    gridrec): the in-bounds reads must be those of the model on the history with the panicking operations removed (a rejected
    access changes nothing), the out-of-bounds accesses must panic, and safe and unsafe build must agree"""
    rng = run.rng
    n = 1500 if run.thorough else 250
    cases = []; filt = []; plans = []
    for _ in range(n):
        kind = rng.choice([1, 2, 3, 4]); W, H, D, C = rng.choice(SHAPES)
        lim = min(W, H, D, C)
        def pt(oob):
            p = [rng.randrange(0, lim) for _ in range(4)]
            for a in range(kind, 4): p[a] = 0
            if oob: p[rng.randrange(0, kind)] = max(W, H, D, C) + rng.randrange(0, 3)
            return tuple(p)
        hot = [pt(False) for _ in range(rng.randrange(1, 4))]
        ops = []; good = []; plan = []
        for _ in range(rng.randrange(3, 30)):
            oob = rng.random() < 0.25
            p = pt(True) if oob else (rng.choice(hot) if rng.random() < 0.7 else pt(False))
            if rng.random() < 0.5:
                o = (0, *p, rng.randrange(-10**6, 10**6)); plan.append("S!" if oob else "S")
            else:
                o = (1, *p); plan.append("G!" if oob else "G")
            ops.append(o)
            if not oob: good.append(o)
        for q in hot: ops.append((1, *q)); good.append((1, *q)); plan.append("G")
        cases.append(Case("gridrec", [kind, W, H, D, C], ops, {})); filt.append(Case("grid", [kind, W, H, D, C], good, {})); plans.append(plan)
    mout = driver_eval([c.line("grid_model_entry") for c in filt])
    lines = [c.line("gridrec") for c in cases]
    outs = {}
    for tag, b in bins.items():
        rc, o, err = run_lines(b, lines, line_timeout=30)
        outs[tag] = o + ["<no answer>"] * (len(lines) - len(o))
    n_ok = 0; n_oob = 0
    for k, (c, plan) in enumerate(zip(cases, plans)):
        vals = mout[k].split(); want = []; vi = 0
        for t in plan:
            if t == "G": want.append(vals[vi] if vi < len(vals) else "?"); vi += 1
            elif t == "G!": want.append("-999"); n_oob += 1
            elif t == "S!": want.append("-998"); n_oob += 1
        run.cov["evaluations"] += 1
        bad = [tag for tag in outs if outs[tag][k].split() != want]
        if not bad:
            n_ok += 1; continue
        tag = bad[0]
        run.violation({"kind": "property-oracle-failed-on-implementation",
                       "why": f"{tag} build: a grid used on after a caught out-of-bounds panic does not read back what was stored (model = the same history without the rejected accesses; -999 / -998 mark a panicking load / store)",
                       "harness_line": lines[k], "expected": " ".join(want), "got": outs[tag][k], "build": tag, "recover": True, "case": c.to_json(),
                       "rerun": "cd /verif && python3 bin/check.py C17 --replay <this file>"})
        break
    run.cov["reuse_after_caught_out_of_bounds_panic"] = {"histories": len(cases), "agree": n_ok, "out_of_bounds_accesses": n_oob, "builds": sorted(bins)}


def replay(path):
    run = Run("C17"); ensure_driver(); bins = builds(run)
    import json as _j
    dj = _j.load(open(path))
    if dj.get("recover"):
        rc, o, err = run_lines(bins[dj["build"]], [dj["harness_line"]], line_timeout=30)
        got = o[0] if o else "<no answer>"
        print("expected:", dj["expected"]); print("got     :", got)
        bad = got.split() != dj["expected"].split()
        print("REPRODUCED" if bad else "not reproduced")
        return 1 if bad else 0
    return generic_replay(mk_diff(run, bins), path)
