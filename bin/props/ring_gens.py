from ringlib import *


def _gen(run, n, **kw):
    rng = run.rng
    cfgs = []
    dist = {"ring_sizes": {}, "multi": 0, "single": 0, "blocking": 0, "spin": 0, "stages": {}, "events": 0, "zero_event_pipelines": 0, "strategies": {}}
    for _ in range(n):
        c = kw["make"](rng)
        cfgs.append(c)
        dist["ring_sizes"][c.n] = dist["ring_sizes"].get(c.n, 0) + 1
        dist["multi" if c.multi else "single"] += 1
        dist["blocking" if c.block else "spin"] += 1
        dist["stages"][len(c.stages)] = dist["stages"].get(len(c.stages), 0) + 1
        ev = sum(sum(w) for w in c.writers); dist["events"] += ev
        if ev == 0: dist["zero_event_pipelines"] += 1
        dist["strategies"][c.strategy] = dist["strategies"].get(c.strategy, 0) + 1
    return cfgs, dist


def gen_mixed(run):
    return _gen(run, 6000 if run.thorough else 450, make=lambda rng: gen_cfg(rng, max_events=30))


def gen_small_rings(run):
    def mk(rng):
        c = gen_cfg(rng, max_events=36, allow_nonexclusive=(rng.random() < 0.15))
        if rng.random() < 0.6 and c.n > 8:
            c = gen_cfg(rng, max_events=36); c.n = rng.choice([2, 4, 8]) if not c.multi else rng.choice([2, 4, 8])
            c.writers = [[min(b, c.n - 1) or 1 for b in w] for w in c.writers]
        return c
    return _gen(run, 6000 if run.thorough else 450, make=mk)


def gen_blocking(run):
    def mk(rng):
        c = gen_cfg(rng, max_events=20)
        if rng.random() < 0.7: c.block = True; c.spurious = rng.random() < 0.5
        return c
    return _gen(run, 6000 if run.thorough else 450, make=mk)


def gen_staged(run):
    def mk(rng):
        while True:
            c = gen_cfg(rng, max_events=24)
            if len(c.stages) >= 2: return c
    return _gen(run, 6000 if run.thorough else 400, make=mk)


def gen_multi(run):
    def mk(rng):
        c = gen_cfg(rng, multi=(rng.random() < 0.8), max_events=30)
        return c
    return _gen(run, 6000 if run.thorough else 450, make=mk)
