"""C09 — Context keeps base and extra contexts as isolated, faithful contextoid stores."""
import json
from vlib import *
from props.c08 import Alloc

PROPS = "theories/Props/C09.v"
OPN = {0: "add_node", 1: "remove_node", 2: "add_edge", 3: "remove_edge", 4: "extra_add_new", 5: "set_current", 6: "unset",
       7: "x_add_node", 8: "x_remove_node", 9: "x_add_edge", 10: "x_remove_edge", 11: "set_index"}


def gen_history(rng, B, L):
    base = Alloc(); extras = {}; count = 0; cur = 0
    ops = []; val = rng.randrange(1, 500)
    bedges = set(); xedges = {}
    def idx(al):
        if al is not None and al.live and rng.random() < 0.8:
            return rng.choice(sorted(al.live))
        return rng.randrange(0, B)
    for _ in range(L):
        if rng.random() < 0.03:
            ops.append((5, 77, rng.randrange(2), 0)); continue      # a creation that panics (see harness): no change
        c = rng.choices(range(12), [5, 2, 4, 2, 1.2 if count < 4 else 0, 3, 0.7, 5, 2, 4, 2, 2])[0]
        x = y = z = 0
        al = extras.get(cur) if (cur != 0 and cur <= count) else None
        if c == 0:
            if len(base.live) >= B - 2: c = 1
            else:
                val += rng.randrange(1, 4); x = val; base.add()
        if c == 1:
            x = idx(base); base.remove(x); bedges = {e for e in bedges if x not in e}
        elif c == 2:
            x, y, z = idx(base), idx(base), rng.randrange(0, 4)
            if bedges and rng.random() < 0.15: x, y = rng.choice(sorted(bedges))
            bedges.add((x, y))
        elif c == 3:
            if bedges and rng.random() < 0.7: x, y = rng.choice(sorted(bedges))
            else: x, y = idx(base), idx(base)
            bedges.discard((x, y))
        elif c == 4:
            x = rng.choice([0, 1]); count += 1; extras[count] = Alloc(); xedges[count] = set()
            if x: cur = count
        elif c == 5:
            x = rng.choice(list(range(0, count + 1)) * 3 + [count + 1, count + 2])
            if x <= count: cur = x
        elif c == 6:
            cur = 0
        elif c == 7:
            if al is not None and len(al.live) >= B - 2: c = 8
            else:
                val += rng.randrange(1, 4); x = val
                if al is not None: al.add()
        if c == 8:
            x = idx(al)
            if al is not None: al.remove(x)
        elif c == 9:
            x, y, z = idx(al), idx(al), rng.randrange(0, 4)
        elif c == 10:
            x, y = idx(al), idx(al)
        elif c == 11:
            x, y, z = rng.randrange(0, B), rng.randrange(0, 50), rng.choice([0, 1])
        ops.append((c, x, y, z))
    return ops


def gen_cases(run):
    rng = run.rng; cases = []
    dist = {"ops": {v: 0 for v in OPN.values()}, "histories": 0, "with_2plus_extras": 0, "ops_with_nothing_selected": 0}
    n = 12000 if run.thorough else 2000
    for _ in range(n):
        B = rng.choice([3, 4, 5, 6])
        L = rng.randrange(1, 50 if run.thorough else 32)
        ops = gen_history(rng, B, L)
        # the id of the Context itself: unrelated to the extra-context ids 1, 2, ... it hands out (0, 1, an id equal to / above the
        # number of extra contexts, large ids)
        cid = rng.choice([1, 1, 0, 2, 3, 5, 42, 2**63 + 7])
        cases.append(Case("context", [B], ops, {"ctx_id": cid}))
        dist.setdefault("context_ids", {}); dist["context_ids"][str(cid)] = dist["context_ids"].get(str(cid), 0) + 1
        for o in ops: dist["ops"][OPN[o[0]]] += 1
        if sum(1 for o in ops if o[0] == 4) >= 2: dist["with_2plus_extras"] += 1
    dist["histories"] = len(cases)
    return cases, dist


def builds(run):
    b, log = cargo_build("dc")
    if not b:
        fatal(run, "cargo build of harness/dc against /repo failed", log)
    return {"release": b}


def mk_diff(run, bins):
    return Differential(run, bins, lambda c: "context_model_entry", None, check_entry=lambda c: "context_check_entry",
                        harness_head=lambda c: f"context_{c.meta.get('ctx_id', 1)}",
                        nontrivial=lambda c: len(c.ops) >= 5 and any(o[0] >= 7 for o in c.ops) and any(o[0] <= 3 for o in c.ops))


def main():
    run = Run("C09")
    run.do_proof(PROPS)
    ok, msg = ensure_driver()
    if not ok:
        fatal(run, "model extraction / driver build", msg)
    bins = builds(run)
    cases, dist = gen_cases(run)
    d = mk_diff(run, bins)
    B = 250
    for i in range(0, len(cases), B):
        d.process(cases[i:i + B])
    found = d.finish()
    from props.bulk_common import bulk_phase
    bulk_phase(run, bins["release"], "C09")
    proof_failure_violation(run, found or run.violations)
    run.cov["rule"] = ("random interleavings of base-context ops, extra_ctx_add_new(default?), set/unset current id (also unknown ids), extra-context node/edge ops "
                       "(also with nothing selected) and index-map writes; after EVERY op the full observation of ALL contexts: base through the base API, every extra "
                       "context read completely through the public API after selecting it (selection restored), the readers under the real selection, check_exists, both "
                       "index maps. Non-trivial = >= 5 ops touching both base and an extra context")
    run.cov["distribution"] = dist
    run.cov["samples"] = [cases[0].to_json(), cases[-1].to_json()]
    run.finish(extra_trusted=["HashMap<u64, UltraGraph> / HashMap<usize, usize> as association lists; Contextoid represented by its id; RelationKind by its u64 code",
                              "the component graphs are C08's UltraGraph model"],
               assumptions=["extra_ctx_set_current_id(0) succeeds (0 = unselect), as coded: check_exists is idx <= count"])


def replay(path):
    run = Run("C09"); ensure_driver(); bins = builds(run)
    import json as _j
    if _j.load(open(path)).get("bulk"):
        from props.bulk_common import bulk_replay
        return bulk_replay("C09", bins["release"], path)
    return generic_replay(mk_diff(run, bins), path)
