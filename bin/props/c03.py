"""C03 — Causal state machine fires an action iff its causal state evaluates true."""
import json
from vlib import *

PROPS = "theories/Props/C03.v"
NS, NA = 24, 16
OPN = {0: "new", 1: "add_single_state", 2: "remove_single_state", 3: "update_single_state", 4: "eval_single_state", 5: "eval_all_states", 6: "update_all_states", 7: "len"}


def gen_history(rng, L):
    ops = []
    keys = set()
    def pairs(n):
        out = []
        for _ in range(n):
            out += [rng.randrange(NS), rng.randrange(NA)]
        return out
    if rng.random() < 0.6:
        n = rng.randrange(0, 5); pr = pairs(n); ops.append((0, n, *pr))
        keys = {pr[2 * i] // 3 for i in range(n)}
    for _ in range(L):
        c = rng.choices([1, 2, 3, 4, 5, 6, 7], [5, 3, 4, 7, 4, 0.6, 1])[0]
        def key():
            if keys and rng.random() < 0.75: return rng.choice(sorted(keys))
            return rng.randrange(0, 9)
        if c == 1:
            if len(keys) >= 6: c = 2
            else:
                k = key(); ops.append((1, k, rng.randrange(NS), rng.randrange(NA))); keys.add(k); continue
        if c == 2:
            k = key(); ops.append((2, k)); keys.discard(k)
        elif c == 3:
            ops.append((3, key(), rng.randrange(NS), rng.randrange(NA)))
        elif c == 4:
            d = 10 * rng.randrange(30, 60) + rng.choices([0, 1, 2], [3, 5, 1])[0]
            ops.append((4, key(), d))
        elif c == 5:
            ops.append((5,))
        elif c == 6:
            n = rng.randrange(0, 5); pr = pairs(n); ops.append((6, n, *pr)); keys = {pr[2 * i] // 3 for i in range(n)}
        else:
            ops.append((7,))
    return ops


def gen_cases(run):
    rng = run.rng; cases = []
    dist = {"ops": {v: 0 for v in OPN.values()}, "histories": 0}
    n = 12000 if run.thorough else 1500
    for _ in range(n):
        ops = gen_history(rng, rng.randrange(1, 40 if run.thorough else 28))
        cases.append(Case("csm", [], ops, {}))
        for o in ops: dist["ops"][OPN[o[0]]] += 1
    dist["histories"] = len(cases)
    return cases, dist


def builds(run):
    b, log = cargo_build("dc")
    if not b:
        fatal(run, "cargo build of harness/dc against /repo failed", log)
    return {"release": b}


def mk_diff(run, bins):
    return Differential(run, bins, None, None, check_entry=lambda c: "csm_check_entry",
                        nontrivial=lambda c: len(c.ops) >= 4 and any(o[0] in (4, 5) for o in c.ops))


def main():
    run = Run("C03")
    run.do_proof(PROPS)
    ok, msg = ensure_driver()
    if not ok:
        fatal(run, "model extraction / driver build", msg)
    bins = builds(run)
    cases, dist = gen_cases(run)
    d = mk_diff(run, bins)
    for i in range(0, len(cases), 500):
        d.process(cases[i:i + 500])
    found = d.finish()
    # CONCURRENT state machines sharing one causaloid (harness family csmconc): each machine's action must fire exactly when ITS data
    # makes the causaloid true, whatever the other machine does at the same time (stress: the schedule is the OS's)
    k = 600 if run.thorough else 250
    for attempt in range(3 if run.thorough else 2):
        rc, outs, err = run_lines(bins["release"], [f"csmconc {k}"], line_timeout=120)
        run.cov["evaluations"] += 1
        o = outs[0] if outs else "<no answer>"
        if o.split() != ["0", "0", "0", "0"]:
            run.violation({"kind": "property-oracle-failed-on-implementation", "concurrent": True, "harness_line": f"csmconc {k}", "got": o,
                           "why": f"two state machines sharing one causaloid, evaluated at the same time on two threads with opposite data ({2 * k * 1000} evaluations): "
                                  f"actions missed by the machine whose data is true / fired by the machine whose data is false / errors A / errors B = {o} (all must be 0)",
                           "rerun": "cd /verif && python3 bin/check.py C03 --replay <this file>"})
            break
    run.cov["concurrent_state_machines"] = {"runs": attempt + 1, "evaluations_per_run": 2 * k * 1000}
    # RE-ENTRANT evaluation (harness family csmreent): the action of state 1 evaluates state 2 of the same machine. Evaluation only
    # reads the state table, so the nested call must behave like any other: state 2's action (4) fires exactly when its causaloid is
    # true, the nested call succeeds (101), and the outer action fires once (50) exactly when state 1's causaloid is true.
    n_re = 0
    if not run.violations:
        for outer in (1, 0):
            for inner in (1, 0):
                for via_all in (0, 1):
                    ln = f"csmreent {outer} {inner} {via_all}"
                    rc, outs, err = run_lines(bins["release"], [ln], line_timeout=30)
                    run.cov["evaluations"] += 1
                    o = outs[0] if outs else "<no answer>"
                    log = ([50] + ([4] if inner else []) + [101]) if outer else []
                    if via_all:
                        log = sorted(log + ([4] if inner else []))          # eval_all_states also evaluates state 2 itself
                    want = [1, 2] + log
                    if o.split() == [str(x) for x in want]:
                        n_re += 1; continue
                    run.violation({"kind": "property-oracle-failed-on-implementation", "concurrent": True, "harness_line": ln, "got": o,
                                   "why": f"re-entrant evaluation (the action of state 1 evaluates state 2 of the same machine; outer causaloid {'true' if outer else 'false'}, inner {'true' if inner else 'false'}, "
                                          f"outer call {'eval_all_states' if via_all else 'eval_single_state'}): answered {o}; expected {' '.join(map(str, want))} (ok, len, fired actions: 50 = outer, 4 = inner, 101 = nested call ok; -999 = panic)",
                                   "expected": " ".join(map(str, want)), "rerun": "cd /verif && python3 bin/check.py C03 --replay <this file>"})
                    break
                if run.violations: break
            if run.violations: break
    run.cov["re_entrant_evaluations"] = {"issued": 8, "as_required": n_re}
    proof_failure_violation(run, found or run.violations)
    run.cov["rule"] = ("histories of up to 40 operations over at most 6 registered ids: new / add / remove / update / eval_single(id, data) / eval_all / update_all / len, ids aimed at "
                       "registered ones (75%) or arbitrary; 24 pooled causal states (two function kinds, stored data with true / false / error codes, ids shared by three states each) and "
                       "16 pooled actions with observable firing, every fourth failing; after every op: Result, the observations the causal functions were called with, the actions fired in "
                       "order, len. Oracle: the extracted checker accepts an eval_all outcome iff it is the outcome of SOME iteration order of the registered ids. "
                       "Non-trivial = at least 4 ops with an evaluation")
    run.cov["distribution"] = dist
    run.cov["samples"] = [cases[0].to_json(), cases[-1].to_json()]
    run.finish(extra_trusted=["HashMap<usize,(state,action)> as association list; the iteration order of eval_all_states is existentially quantified (all permutations of <= 6 keys are tried)",
                              "causal states / actions are pooled fn items of the harness; firing is observed through a per-thread log"],
               assumptions=["at most 6 registered ids at a time in the correspondence (permutation enumeration); the theorems hold for any table size"])


def replay(path):
    run = Run("C03"); ensure_driver(); bins = builds(run)
    import json as _j
    dj = _j.load(open(path))
    if dj.get("concurrent"):
        bad = False
        for attempt in range(5):
            rc, outs, err = run_lines(bins["release"], [dj["harness_line"]], line_timeout=120)
            print("attempt", attempt, "got", outs[0] if outs else None)
            if not outs or outs[0].split() != ["0", "0", "0", "0"]: bad = True; break
        print("REPRODUCED" if bad else "not reproduced"); return 1 if bad else 0
    return generic_replay(mk_diff(run, bins), path)
