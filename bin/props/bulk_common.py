"""Large bulk-insertion histories for C08 / C09: 10^3 .. 1.4*10^5 nodes into one graph / context. The expected answers are the
closed form proved for the model for EVERY n (Graph/BulkAdd.v bulk_add_fresh, Context/Bulk.v ctx_bulk_base / ctx_bulk_extra):
the i-th add returns index i, exactly the indices below n exist and return the value stored under them, the size is n, and
filling an extra context leaves the base context empty."""
import json
from vlib import *

SIZES_QUICK = [0, 1, 7, 300, 70000]
SIZES_THOROUGH = [0, 1, 2, 63, 64, 65, 255, 256, 257, 1000, 4097, 32769, 65535, 65536, 65537, 70001, 131073, 140000]


def probes(rng, n):
    ps = {0, 1, max(n - 1, 0), n, n + 1, n // 2, 65535, 65536, 65537, max(n - 65536, 0), max(n - 65537, 0)}
    for _ in range(6): ps.add(rng.randrange(0, n + 3))
    return sorted(ps)


def expected(n, v0, ps, other=None):
    out = [-1, 0, n, (1 if n == 0 else 0)] if other is None else [-1, 0, n, other]
    for p in ps:
        out += [1, v0 + p] if p < n else [0, -1]
    return out


def bulk_phase(run, binary, pid):
    rng = run.rng
    sizes = SIZES_THOROUGH if run.thorough else SIZES_QUICK
    lines = []; want = []; meta = []
    for n in sizes:
        v0 = rng.randrange(1, 1000)
        ps = probes(rng, n)
        if pid == "C08":
            cap = rng.choice([0, 1, 8])
            lines.append(f"ugraphbig_{cap} {n} {v0} " + fmt(ps)); want.append(expected(n, v0, ps)); meta.append({"n": n, "graph": "UltraGraph", "initial_capacity": cap})
        else:
            for which in (0, 1):
                lines.append(f"contextbig {which} {n} {v0} " + fmt(ps))
                want.append(expected(n, v0, ps, other=(-1 if which == 0 else 0)))
                meta.append({"n": n, "context": "base" if which == 0 else "extra"})
    rc, outs, err = run_lines(binary, lines, line_timeout=120)
    n_ok = 0
    for ln, o, w, m in zip(lines, outs + ["<no answer>"] * (len(lines) - len(outs)), want, meta):
        run.cov["evaluations"] += 1
        try:
            got = [int(x) for x in o.split()]
        except ValueError:
            got = o
        if got == w:
            n_ok += 1; continue
        why = "bulk insertion differs from the closed form proved for the model (Graph/BulkAdd.v / Context/Bulk.v): "
        if isinstance(got, list) and len(got) == len(w):
            if got[0] != -1: why += f"add number {got[0] + 1} did not return index {got[0]} ({got[1]} adds returned an index different from their position); "
            if got[2] != w[2]: why += f"size {got[2]} instead of {w[2]}; "
            if got[3] != w[3]: why += f"the other context / emptiness flag is {got[3]} instead of {w[3]}; "
            k = next((i for i in range(4, len(w)) if got[i] != w[i]), None)
            if k is not None: why += f"probe answer #{k - 4} is {got[k]} instead of {w[k]}"
        else:
            why += f"answer {str(o)[:200]}"
        run.violation({"kind": "property-oracle-failed-on-implementation", "why": why, "harness_line": ln, "expected": fmt(w), "got": o if isinstance(o, str) else fmt(o), **m,
                       "bulk": True, "rerun": f"cd /verif && python3 bin/check.py {pid} --replay <this file>"})
        break
    run.cov["bulk_insertion_histories"] = {"sizes": sizes, "cases": len(lines), "agree_with_the_proved_closed_form": n_ok}


def bulk_replay(pid, binary, path):
    d = json.load(open(path))
    rc, outs, err = run_lines(binary, [d["harness_line"]], line_timeout=120)
    got = outs[0] if outs else "<no answer>"
    print("expected:", d["expected"][:300]); print("got     :", got[:300])
    bad = got.split() != d["expected"].split()
    print("REPRODUCED" if bad else "not reproduced")
    return 1 if bad else 0
