"""Shared driver for the ring-buffer properties C04 C05 C06 C13 C14."""
import json, collections
from vlib import *
from ringlib import *

KNOWN_TEXT = {
    "C04-D7-seq0-lost": "single-producer pipeline: the first event (sequence 0) is never delivered to any handler (handlers start at cursor+1 = 1)",
    "C04-D8-multi-publish-stranding": "multi producer with >= 2 publishing threads: a range published before an earlier range is stranded; after drain the handlers miss the tail",
    "C14-D8-multi-publish-stranding": "multi producer with >= 2 publishing threads: after all claimants published the cursor stays below the highest claimed sequence",
    "C06-D8-multi-publish-stall": "multi producer with >= 2 publishing threads: stranded publish / low-watermark regress leaves producers spinning in next() and handlers parked forever",
    "C14-D13-sequencer-clones-overlap": "claims made through two CLONES of one MultiProducerSequencer (the one-producer-per-clone pattern of the module documentation) return the same range: every clone keeps a private high watermark",
    "C05-D9-same-stage-mutable-handler": "a mutable handler sharing a barrier stage with another handler accesses the same slot concurrently without ordering",
}


def run_ring_property(pid, props_file, gen, rule, extra_trusted=(), assumptions=(), validate=True, extra_phase=None):
    run = Run(pid)
    run.do_proof(props_file)
    binary = ring_binary(run)
    ok, msg = ensure_driver()
    if not ok:
        fatal(run, "model extraction / driver build", msg)
    cfgs, dist = gen(run)
    traces = run_cfgs(binary, cfgs)
    counts = collections.Counter(); nontrivial = set(); reported = 0
    val_fail = None
    n_validated = 0
    for tr in traces:
        run.cov["evaluations"] += 1
        key = tr.cfg.line()
        ev_count = sum(sum(w) for w in tr.cfg.writers)
        if ev_count > tr.cfg.n and len(set(tr.schedule)) > 1:
            nontrivial.add((key, tuple(tr.schedule[:50])))
        for f in analyse(tr):
            if f.prop != pid: continue
            counts[(f.kind, f.known)] += 1
            run.cov["disagreements_checked"] += 1
            if f.known and listed_open(pid, f.known):
                run.known(f.known, KNOWN_TEXT.get(f.known, f.what))
                continue
            if reported < 3:
                reported += 1
                run.violation({"kind": "property-monitor-failed-on-implementation", "what": f.what, "finding": f.kind,
                               "config": tr.cfg.to_json(), "schedule": tr.schedule, "outcome": tr.outcome,
                               "events_around": [e.brief() for e in tr.events[max(0, (f.at or 0) - 12):(f.at or 0) + 3]] if f.at is not None else [e.brief() for e in tr.events[-15:]],
                               "replay_line": Cfg(tr.cfg.n, tr.cfg.multi, tr.cfg.block, tr.cfg.stages, tr.cfg.writers, tr.cfg.seed, tr.cfg.strategy,
                                                  tr.cfg.budget, tr.cfg.spurious, tr.cfg.drain, tr.schedule).line(),
                               "rerun": f"cd /verif && python3 bin/check.py {pid} --replay <this file>"})
    # correspondence (trace validation against the Coq model of the threads)
    if validate:
        from ringvalidate import validate_many
        for tr, r in zip(traces, validate_many(traces)):
            if r is None: continue
            n_validated += 1
            if r is not True and val_fail is None:
                val_fail = (tr, r)
    # correspondence with the PROOF MODELS themselves: replay of every trace (also of aborted runs) on Pipeline.v / MultiPub.v
    rep_fail = None; n_replayed = 0; n_rep_rej = 0
    if validate:
        from ringvalidate import replay_many
        for tr, r in zip(traces, replay_many(traces)):
            n_replayed += 1
            if r is not True:
                n_rep_rej += 1
                if rep_fail is None: rep_fail = (tr, r)
        # drained single-producer runs: replay on the TERMINATION model (Disruptor/Liveness.v)
        from ringvalidate import live_replay_many
        for tr, r in zip(traces, live_replay_many(traces)):
            if r is None or r is True: continue
            n_rep_rej += 1
            why, semantic = r
            if semantic and pid == "C06" and reported < 3:
                reported += 1
                run.violation({"kind": "property-model-oracle-failed-on-implementation", "what": why, "finding": "termination-model-replay",
                               "config": tr.cfg.to_json(), "schedule": tr.schedule, "outcome": tr.outcome,
                               "replay_line": Cfg(tr.cfg.n, tr.cfg.multi, tr.cfg.block, tr.cfg.stages, tr.cfg.writers, tr.cfg.seed, tr.cfg.strategy,
                                                  tr.cfg.budget, tr.cfg.spurious, tr.cfg.drain, tr.schedule).line(),
                               "rerun": f"cd /verif && python3 bin/check.py {pid} --replay <this file>"})
            elif rep_fail is None:
                rep_fail = (tr, why)
    slots_phase(run, pid)
    lag_phase(run, pid)
    extra_dist = extra_phase(run) if extra_phase else None
    if rep_fail is not None and not run.violations and val_fail is None:
        tr, why = rep_fail
        run.violation({"kind": "correspondence-broken (the logged execution is not an execution of the proof model: replay on the extracted Pipeline.v / MultiPub.v step relation failed; the property monitors held on every explored schedule)",
                       "correspondence": "pipe_replay_entry / ring_replay_entry / multipipe_replay_entry / live_replay_entry vs harness/ring trace", "why": why, "config": tr.cfg.to_json(), "schedule": tr.schedule},
                      name=f"corr-{run.tier}.json", no_input=True)
    if val_fail is not None and not run.violations:
        tr, why = val_fail
        run.violation({"kind": "correspondence-broken (the extracted Coq model of the ring-buffer threads does not accept the logged trace; the property monitors held on every explored schedule)",
                       "correspondence": "ring_validate_entry vs harness/ring trace", "why": why, "config": tr.cfg.to_json(), "schedule": tr.schedule},
                      name=f"corr-{run.tier}.json", no_input=True)
    proof_failure_violation(run, bool(run.violations))
    run.cov["distinct_nontrivial"] += len(nontrivial)
    run.cov["traces_validated_against_impl"] = n_validated
    run.cov["traces_replayed_on_the_proof_model"] = n_replayed
    run.cov["traces_rejected_by_the_proof_model_replay"] = n_rep_rej
    import ringvalidate as _rv
    run.cov["termination_model_replay"] = dict(_rv.LIVE_STATS)
    run.cov["traces_replayed_on_the_product_model_MultiPipe"] = _rv.REPLAY_STATS["multi_pipeline_product_replays"]
    import ringvalidate
    if ringvalidate.DRIVER_FAILURES:
        run.notes.append(f"trace validation skipped for {len(ringvalidate.DRIVER_FAILURES)} traces the OCaml driver could not evaluate (stack depth; trace lengths {sorted(ringvalidate.DRIVER_FAILURES)[-3:]} events)")
    run.cov["rule"] = rule
    dist["monitor_findings"] = {f"{k[0]}|{k[1]}": v for k, v in counts.items()}
    dist["outcomes"] = dict(collections.Counter(t.outcome for t in traces))
    dist["steps_total"] = sum(t.steps for t in traces); dist["events_total"] = sum(len(t.events) for t in traces)
    if extra_dist: dist.update(extra_dist)
    run.cov["distribution"] = dist
    t0 = traces[0]
    run.cov["samples"] = [{"config": t0.cfg.to_json(), "schedule_prefix": t0.schedule[:60], "first_events": [e.brief() for e in t0.events[:25]]}]
    run.finish(extra_trusted=["the hooked build (cfg deepcausality_rs_deep_causality_verif): std atomics / Mutex / Condvar / slot accesses replaced by reporting wrappers; "
                              "the deterministic scheduler in harness/ring (one runnable thread at a time, seeded random / PCT-like / round-robin / replay, optional spurious wake-ups)",
                              "interleaving semantics: every load returns the latest store (C11 stale reads of non-SC loads are NOT explored); happens-before is computed with vector clocks from "
                              "the Ordering arguments the code really passed (release sequences through RMWs, SeqCst as AcqRel, mutex unlock -> lock)",
                              "monitors (oracles) on the logged trace are Python code in bin/ringlib.py"] + list(extra_trusted),
               assumptions=list(assumptions))


def lag_phase(run, pid):
    """REAL-TIME probes of back pressure and payload through the builder's OTHER entry points (harness/ds family lagprobe, plain build, real
    threads): RustDisruptorBuilder::new(custom data provider of any size, also not a power of two) and with_ring_buffer, with_single_producer() /
    with_multi_producer() (the builder computes the sequencer's size) and explicit sequencers, one or two stages, both wait strategies. The last
    stage stalls inside its first call: meanwhile the producer may fill sequence q only if q - N <= 0 (every last-stage handler has returned
    from q - N); afterwards every event must arrive in order with the payload written for its sequence (as transformed by stage 1)."""
    if pid not in ("C04", "C05", "C13") or run.violations: return
    b, log = cargo_build("ds")
    if not b:
        fatal(run, "cargo build of harness/ds against /repo failed", log)
    rng = run.rng
    probes = []
    def mk(size, multi, route):
        return (size, multi, rng.randrange(2), route, rng.choice([1, 2, 2]), rng.randrange(3 * size, 5 * size + 3))
    probes.append(mk(rng.choice([3, 5, 6, 7, 12]), 0, 1))          # custom provider, not a power of two, builder-computed size
    probes.append(mk(rng.choice([3, 5, 6, 7, 12]), 0, 0))          # the same with an explicit sequencer
    probes.append(mk(8, 1, 3))                                     # RingBuffer<u64, 8>, with_multi_producer()
    probes.append(mk(rng.choice([4, 16]), rng.randrange(2), 1))    # custom provider, power of two
    if run.thorough:
        for size in (3, 5, 6, 7, 12, 24):
            for route in (0, 1): probes.append(mk(size, 0, route))
        for size, route in ((8, 2), (8, 3), (64, 2), (64, 3), (4, 0), (4, 1), (16, 1)):
            for multi in (0, 1): probes.append(mk(size, multi, route))
    n_ok = 0
    for (size, multi, block, route, stages, n) in probes:
        ln = f"lagprobe {size} {multi} {block} {route} {stages} {n}"
        rc, outs, err = run_lines(b, [ln], line_timeout=30)
        run.cov["evaluations"] += 1
        o = outs[0] if outs else "<no answer>"
        why = None
        try:
            st, during, seen, bad, ooo = [int(x) for x in o.split()]
            want_seen = n if multi else n - 1          # single producer: sequence 0 is never delivered (finding D7, judged by C04's monitors)
            if st != 1: why = "write / drain / join did not all return within 6 s"
            elif during > size: why = (f"while the last stage was stalled inside its FIRST call (it had returned from nothing) the producer filled sequence {during} of a ring of {size} slots: "
                                       f"sequence {during} shares its slot with sequence {during - size} >= 1, which the stalled stage has not handled yet (no stage may be lapped)")
            elif bad: why = f"{bad} events reached the last stage with a payload other than the one written for their sequence (as transformed by the first stage)"
            elif ooo: why = f"{ooo} calls of the last stage were not for the successor of the previous sequence"
            elif seen != want_seen: why = f"the last stage saw {seen} events, {want_seen} were published and drained"
        except ValueError:
            why = f"unparsable answer {o[:80]!r}"
        if why is None:
            n_ok += 1; continue
        run.violation({"kind": "property-oracle-failed-on-implementation", "what": f"ring of {size} slots, {'multi' if multi else 'single'} producer, {'blocking' if block else 'spinning'} wait, "
                       f"{'builder-computed sequencer size' if route % 2 else 'explicit sequencer'}, {'RingBuffer' if route >= 2 else 'custom data provider (sequence % len)'}, {stages} stage(s), {n} events: " + why,
                       "harness_line": ln, "got": o, "lag": True, "size": size, "multi": multi, "n": n,
                       "rerun": f"cd /verif && python3 bin/check.py {pid} --replay <this file>"})
        break
    run.cov["builder_entry_point_probes"] = {"issued": len(probes), "as_required": n_ok, "sizes": sorted({p[0] for p in probes})}


def slots_phase(run, pid):
    """the ring buffer's slot mapping driven directly (harness/ds family ringslots, plain build): sequence s addresses slot s mod N;
    a read returns the value last written through any sequence congruent to s modulo N. Rings of 2 .. 262 144 slots (the explored
    pipelines use rings up to 128 slots; an index narrower than usize only shows above 65 536 slots)."""
    if pid not in ("C04", "C05", "C13"): return
    b, log = cargo_build("ds")
    if not b:
        fatal(run, "cargo build of harness/ds against /repo failed", log)
    rng = run.rng
    lines = []; want = []
    for N in ([2, 8, 64, 1024, 65536, 131072, 262144] if run.thorough else [8, 131072, rng.choice([64, 1024, 65536, 262144])]):
        slots = {}; ops = []; exp = [N]
        base = [rng.randrange(0, 4 * N) for _ in range(6)]
        # systematic part: one write per index bit (sequence 2^b plus a random number of laps), all read back through both
        # accessors afterwards; a mapping that drops or merges an index bit cannot pass
        bits = [1 << b for b in range(N.bit_length() - 1)] + [N - 1]
        for sb in bits:
            s0 = sb + N * rng.randrange(0, 5); v = rng.randrange(1, 2**40); ops += [0, s0, v]; slots[s0 % N] = v
        for sb in bits:
            for opc in (1, 2):
                s0 = sb + N * rng.randrange(0, 5); ops += [opc, s0, 0]; exp.append(slots.get(s0 % N, 0))
        for _ in range(40):
            s0 = rng.choice(base) + rng.choice([0, 0, N, 2 * N, 65536, 256, 1, 3 * N]) if rng.random() < 0.8 else rng.randrange(0, 2**40)
            if rng.random() < 0.5:
                v = rng.randrange(1, 2**40); ops += [0, s0, v]; slots[s0 % N] = v
            else:
                ops += [rng.choice([1, 2]), s0, 0]; exp.append(slots.get(s0 % N, 0))
        lines.append(f"ringslots {N} " + fmt(ops)); want.append(exp)
    rc, outs, err = run_lines(b, lines, line_timeout=60)
    # the extracted storage model (Disruptor/Slots.v: data[sequence & mask]) and its specification (last write to a congruent
    # sequence) on the same lines; theorem fresh_ring_is_a_map_on_residues says the two agree for every history
    try:
        m_out = driver_eval(["ringslots_entry " + ln.split(" ", 1)[1] for ln in lines], timeout=600)
        s_out = driver_eval(["ringslots_spec_entry " + ln.split(" ", 1)[1] for ln in lines], timeout=600)
    except RuntimeError as ex:
        fatal(run, "the extracted ring-storage model could not be evaluated", str(ex))
    n_ok = 0
    for k, (ln, w) in enumerate(zip(lines, want)):
        run.cov["evaluations"] += 1
        o = outs[k] if k < len(outs) else "<no answer>"
        wl = [str(x) for x in w]
        if m_out[k].split() != wl or s_out[k].split() != wl:
            # the three references disagree among themselves: the machinery is broken, not the code
            fatal(run, "ring-storage references disagree (extracted model / extracted spec / generator's expectation)", f"{ln}\nmodel {m_out[k][:300]}\nspec {s_out[k][:300]}\nexpected {fmt(w)[:300]}")
        if o.split() == wl:
            n_ok += 1; continue
        run.violation({"kind": "property-oracle-failed-on-implementation", "what": f"ring of {ln.split()[1]} slots: a read through sequence s does not return the value last written to slot s mod N "
                       "(slots are shared between sequences that are not congruent modulo the ring size, or a slot is lost); the extracted model Disruptor/Slots.v and its specification give the expected answer",
                       "harness_line": ln, "expected": fmt(w), "got": o, "model_output": m_out[k], "slots": True,
                       "rerun": f"cd /verif && python3 bin/check.py {pid} --replay <this file>"})
        break
    run.cov["ring_slot_mapping"] = {"rings": [int(l.split()[1]) for l in lines], "agree": n_ok}


def validate_trace(tr):
    """trace validation against the extracted model; None = not applicable"""
    try:
        from ringvalidate import validate
    except ImportError:
        return None
    return validate(tr)


def replay_ring(pid):
    def replay(path):
        d = json.load(open(path))
        if d.get("lag"):
            b, log = cargo_build("ds")
            rc, outs, err = run_lines(b, [d["harness_line"]], line_timeout=30)
            got = outs[0] if outs else "<no answer>"
            print("stored:", d["got"], "  now:", got)
            try:
                st, during, seen, bad, ooo = [int(x) for x in got.split()]
                isbad = st != 1 or during > d["size"] or bad or ooo or seen != (d["n"] if d["multi"] else d["n"] - 1)
            except ValueError:
                isbad = True
            print("REPRODUCED" if isbad else "not reproduced"); return 1 if isbad else 0
        if d.get("slots"):
            b, log = cargo_build("ds")
            rc, outs, err = run_lines(b, [d["harness_line"]], line_timeout=60)
            got = outs[0] if outs else "<no answer>"
            exp = driver_eval(["ringslots_entry " + d["harness_line"].split(" ", 1)[1]])[0]      # the extracted model on the same line
            print("model   :", exp[:200]); print("got     :", got[:200])
            bad = got.split() != exp.split()
            print("REPRODUCED" if bad else "not reproduced"); return 1 if bad else 0
        if "config" not in d:
            print(json.dumps(d, indent=1)[:3000]); return 1
        run = Run(pid); binary = ring_binary(run)
        cfg = Cfg.from_json(d["config"]); cfg.replay = d.get("schedule", [])
        tr = run_cfgs(binary, [cfg])[0]
        fs = [f for f in analyse(tr) if f.prop == pid and not (f.known and listed_open(pid, f.known))]
        for f in fs: print("FINDING", f.what)
        if pid == "C06":
            from ringvalidate import live_replay_many
            ok, msg = ensure_driver()
            r = live_replay_many([tr])[0]
            if r not in (None, True) and r[1]:
                print("FINDING", r[0]); fs.append(r)
        print("outcome", tr.outcome, "steps", tr.steps, "schedule reproduced:", tr.schedule[:len(cfg.replay)] == cfg.replay)
        print("REPRODUCED" if fs else "not reproduced")
        return 1 if fs else 0
    return replay
