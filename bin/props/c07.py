"""C07 — Sliding window always equals the last N pushed values, across rewinds."""
import json
from vlib import *

PROPS = "theories/Props/C07.v"
KF_D6 = "C07-D6-vectorstorage-rewind"
BACK = {0: "ArrayStorage", 1: "VectorStorage", 2: "UnsafeArrayStorage", 3: "UnsafeVectorStorage"}
LARGE = [(7,8),(7,9),(7,13),(7,22),(8,9),(8,11),(8,15),(8,16),(8,17),(8,25),(9,10),(9,17),(9,19),(11,12),(11,21),(11,23),
         (16,17),(16,19),(16,31),(16,32),(16,33),(16,40),(32,33),(32,37),(32,63),(32,70),(64,65),(64,66),(64,127),(64,200)]
VEC_SIZES = [1,2,3,4,5,6,7,8,9,11,16,32,64]


def values(rng, n, ty):
    # distinct, non-zero values that fit the element type
    if ty == "u8":
        base = rng.randrange(1, 20)
        return [(base + i) % 255 + 1 for i in range(n)]   # distinct as long as n <= 255; longer histories wrap (still valid)
    lim = {"u16": 60000, "u32": 2**31, "u64": 2**62, "pair": 2**40, "tri": 2**31}[ty]
    start = rng.randrange(1, lim // 2)
    return [start + i for i in range(n)]


def gen_cases(run):
    rng = run.rng
    cases = []
    dist = {"backends": {}, "types": {}, "rewinds_crossed": 0, "overlapping_rewind_cases": 0, "pushes": 0}

    def add(b, n, c, ty, length):
        vals = values(rng, length, ty)
        cases.append(Case("window", [b, n, c], [(v,) for v in vals], {"ty": ty, "backend": BACK[b]}))
        dist["backends"][BACK[b]] = dist["backends"].get(BACK[b], 0) + 1
        dist["types"][ty] = dist["types"].get(ty, 0) + 1
        dist["pushes"] += length
        dist["rewinds_crossed"] += max(0, (length - n)) // max(1, c - n)
        if c < 2 * n:
            dist["overlapping_rewind_cases"] += 1

    reps = 3 if run.thorough else 1
    for _ in range(reps):
        for n in range(1, 7):
            for c in range(n + 1, 3 * n + 2):
                L = 4 * c + 3
                add(0, n, c, "u64", L)
                for ty in (["u8", "u16", "u32", "u64", "pair", "tri"] if (run.thorough or (n + c) % 2 == 0) else ["u8", "tri", "u32"]):
                    add(2, n, c, ty, L)
            for mult in (2, 3, 4):
                c = n * mult
                L = 4 * c + 3
                add(1, n, c, "u64", L)
                for ty in ("u8", "u64", "tri"):
                    add(3, n, c, ty, L)
    big = LARGE if run.thorough else [p for i, p in enumerate(LARGE) if i % 3 == run.seed % 3]
    for (n, c) in big:
        L = min(3 * c + 5, 250)
        add(0, n, c, "u64", L)
        add(2, n, c, "u8", L)
        add(2, n, c, "tri", L)
    for n in (VEC_SIZES if run.thorough else [7, 9, 16, 64]):
        for mult in ((2, 3, 5) if run.thorough else (2, 3)):
            c = n * mult
            L = min(3 * c + 5, 250)
            add(1, n, c, "u64", L)
            add(3, n, c, "u8", L)
            add(3, n, c, "tri", L)
    return cases, dist


def known(case, impl, model, spec):
    # D6: safe VectorStorage, history longer than its capacity (the first rewind has happened)
    if case.prefix[0] == 1 and len(case.ops) > case.prefix[2]:
        return (KF_D6, f"VectorStorage keeps N+1 values after its first rewind and drops a value at each later rewind "
                       f"(history longer than capacity; witness size=2 multiple=2, 5 pushes)")
    return None


def builds(run):
    out = {}
    for tag, feats, prof in (("release", (), "release"), ("unsafe-release", ("unsafe",), "release"), ("unsafe-debug", ("unsafe",), "dev")):
        b, log = cargo_build("win", feats, prof, tag="win" + ("-unsafe" if feats else ""))
        if not b:
            fatal(run, f"cargo build of harness/win ({tag}) against /repo failed", log)
        out[tag] = b
    return out


def mk_diff(run, bins):
    return Differential(run, bins, lambda c: "window_model_entry", lambda c: "window_spec_entry", known=known,
                        harness_head=lambda c: "window_" + c.meta.get("ty", "u64"),
                        nontrivial=lambda c: len(c.ops) > c.prefix[2],       # crosses at least one rewind
                        isolated=True,
                        applicable=lambda c, b: not (b == "release" and c.prefix[0] in (2, 3)))


def big_windows(run, bins):
    """LARGE windows (thousands of elements, 64 KiB and more of retained bytes), harness family windowbig: the window after the last
    four pushes of a long history is compared, inside the harness, with the closed form of theorem window_is_last_n (the slice is
    exactly the last N pushed values). The safe VectorStorage is only driven up to its capacity (finding D6 starts at the first rewind)."""
    rng = run.rng
    BIG = [("u64", 0, 8192, 8200), ("u64", 0, 300, 301), ("u64", 0, 9000, 18001),
           ("u64", 2, 8192, 8200), ("u64", 2, 9000, 18001), ("u32", 2, 16384, 16400), ("u32", 2, 20000, 20003), ("tri", 2, 6000, 6011),
           ("u64", 3, 70000, 140000), ("u64", 1, 70000, 140000)]
    if not run.thorough:
        BIG = [BIG[0], BIG[3], rng.choice(BIG[4:8]), BIG[8], BIG[9]]
    n_ok = 0; n_cases = 0
    for (ty, b, n, c) in BIG:
        for pushes in ([c + 2, 2 * c + 5, rng.randrange(c + 1, 4 * c)] if b != 1 else [c - 3, n + 5]):
            ln = f"windowbig_{ty} {b} {n} {c} {pushes} {rng.randrange(1, 1000)}"
            for tag, binary in bins.items():
                if tag == "release" and b in (2, 3): continue
                if tag == "unsafe-debug" and pushes > 40000: continue
                rc, outs, err = run_lines(binary, [ln], line_timeout=120)
                o = outs[0] if outs else "<no answer>"
                run.cov["evaluations"] += 1; n_cases += 1
                if o.split() == ["0", "1", "1", "1", "0"] * 4:
                    n_ok += 1; continue
                run.violation({"kind": "property-oracle-failed-on-implementation",
                               "why": f"{BACK[b]} (build {tag}), window of {n} elements, capacity {c}, {pushes} pushes: after one of the last four pushes the window is not the last {n} pushed "
                                      "values (per checked push: slice positions that differ, first ok, last ok, filled, arr positions that differ; expected 0 1 1 1 0)",
                               "harness_line": ln, "build": tag, "expected": "0 1 1 1 0 " * 4, "got": o, "bigwindow": True,
                               "rerun": "cd /verif && python3 bin/check.py C07 --replay <this file>"})
                run.cov["large_windows"] = {"cases": n_cases, "agree": n_ok}
                return
    run.cov["large_windows"] = {"cases": n_cases, "agree": n_ok}


def corpus_cases():
    out = []
    p = os.path.join(VERIF, "corpus", "C07")
    if os.path.isdir(p):
        for f in sorted(os.listdir(p)):
            out.append(Case.from_json(json.load(open(os.path.join(p, f)))))
    return out


def main():
    run = Run("C07")
    run.do_proof(PROPS)
    ok, msg = ensure_driver()
    if not ok:
        fatal(run, "model extraction / driver build", msg)
    bins = builds(run)
    cases, dist = gen_cases(run)
    cases = corpus_cases() + cases
    d = mk_diff(run, bins)
    B = 300
    for i in range(0, len(cases), B):
        d.process(cases[i:i + B])
    found = d.finish()
    big_windows(run, bins)
    proof_failure_violation(run, found or run.violations)
    run.cov["rule"] = ("one case = (backend, SIZE, CAPACITY|size*multiple, element type, history of distinct values); all observables "
                       "(filled, empty, first, last, slice, vec, arr) compared after EVERY push; exhaustive grid SIZE 1..6 x CAPACITY SIZE+1..3*SIZE+1 "
                       "(arrays) / multiple 2..4 (vectors), history length 4*capacity+3, plus larger sizes up to 64; builds: release, unsafe release, "
                       "unsafe debug (UB precondition checks on). Non-trivial = history longer than the capacity (crosses a rewind)")
    run.cov["distribution"] = dist
    s0 = cases[0].to_json(); s0["ops"] = s0["ops"][:12]
    run.cov["samples"] = [s0, {"backend": cases[-1].meta, "prefix": cases[-1].prefix, "history_len": len(cases[-1].ops)}]
    run.finish(extra_trusted=["slice::copy_within and ptr::copy modelled as list functions with memmove semantics; Vec/array indexing as nth/upd",
                              "the 16-byte chunk loop of UnsafeArrayStorage::rewind is modelled as one memmove (covered by the element types u8/u16/u32/u64/16-byte/12-byte structs in the correspondence)"],
               assumptions=["SIZE >= 1, CAPACITY > SIZE (asserted by the constructors), vector multiple >= 2 (as the property states)",
                            "safe VectorStorage: theorem only for histories no longer than the capacity; beyond that it is the known finding D6 (refutation lemma C07_vec_refuted)"])


def replay(path):
    run = Run("C07"); ensure_driver(); bins = builds(run)
    dj = json.load(open(path))
    if dj.get("bigwindow"):
        rc, outs, err = run_lines(bins[dj["build"]], [dj["harness_line"]], line_timeout=120)
        got = outs[0] if outs else "<no answer>"
        print("expected:", dj["expected"]); print("got     :", got)
        bad = got.split() != dj["expected"].split()
        print("REPRODUCED" if bad else "not reproduced"); return 1 if bad else 0
    return generic_replay(mk_diff(run, bins), path)
