"""C10 — Shortest-path reasoning evaluates exactly one minimum-weight path."""
from props.causal_common import *

PROPS = "theories/Props/C10.v"


def gen_cases(run):
    rng = run.rng; cases = []
    dist = {"graphs": 0, "queries": 0, "start_eq_stop": 0, "absent_end": 0, "weighted_edges": 0, "zero_weight_edges": 0, "graphs_with_cheap_detour": 0, "detour_queries": 0}
    n = 5000 if run.thorough else 700
    for _ in range(n):
        g = Gen(rng)
        tree = g.tree(1, 2, singles_only=True, weighted=True, nmax=rng.choice([3, 6, 8, 9]))
        nn = tree[2]
        dist["weighted_edges"] += sum(1 for e in g.last_graph[1] if e[2] > 0); dist["zero_weight_edges"] += sum(1 for e in g.last_graph[1] if e[2] == 0)
        if g.detour: dist["graphs_with_cheap_detour"] += 1
        # add a few back/extra edges: shortest-path reasoning does not need acyclicity
        calls = []
        for _ in range(rng.randrange(1, 6)):
            data = data_for(rng, g, 14, p_true=rng.choice([0.6, 0.9, 1.0]), p_err=rng.choice([0, 0.05]))
            idx = None
            if rng.random() < 0.3:
                perm = list(range(14)); rng.shuffle(perm); idx = [(i, perm[i]) for i in range(14)]
            a = rng.randrange(0, nn + 1); b = rng.randrange(0, nn + 1)
            if rng.random() < 0.8: a = rng.randrange(0, nn); b = rng.randrange(0, nn)       # mostly present ends
            if a == b and nn > 1 and rng.random() < 0.7: b = (a + rng.randrange(1, nn)) % nn
            if g.detour and rng.random() < 0.5: a, b = g.detour; dist["detour_queries"] += 1
            if a == b: dist["start_eq_stop"] += 1
            if a >= nn or b >= nn: dist["absent_end"] += 1
            calls.append(call(3, a, b, idx, data)); dist["queries"] += 1
        dist["graphs"] += 1
        cases.append(mk_case(tree, calls, {}))
    return cases, dist


CHECKS = [chk_trace]
RULE = ("weighted DAGs of 1..9 nodes (weights 0..5 forcing ties; 60% of the graphs with >= 4 nodes get a cheap 3-5 hop chain next to a heavier direct edge, half of their queries ask for exactly that pair) of singleton causaloids; all kinds of ordered pairs incl. start == stop, absent and unreachable ends; random verdicts "
        "with error markers; id or index routing. Oracle (extracted c10_check_entry): the path the graph's shortest_path routine returned is validated by C15's proved checker, the call is "
        "recomputed on the model WITH THAT PATH and the whole segment (verdict, evaluated causaloids in order with their observations, activation of every causaloid) must be equal")


def removed(run, d, bins, cases):
    # shortest-path reasoning on graphs from which causaloids were REMOVED again (C11's removal phase, which issues such calls)
    import props.c11 as c11
    c11.removed_phase(run, d, bins, None)
    big_phase(run, bins)
    conc_sp_phase(run, bins)


def conc_sp_phase(run, bins):
    """CONCURRENT shortest-path reasoning over one shared graph (harness family causalconcsp; the reasoning methods take &self): thread A
    repeats the call on data for which every causaloid of the path is true, thread B repeats it (and single-cause calls on the inner
    nodes) on data for which they are false. The verdict is the conjunction of the verdicts of the path's causaloids ON THE DATA OF
    THAT CALL (theorem C10; purity: C12), whatever the other thread does. Stress: the schedule is the OS's."""
    if run.violations: return
    rng = run.rng
    lines = [f"causalconcsp {rng.choice([3, 4, 6])} {400 if run.thorough else 150}"]
    if run.thorough: lines.append(f"causalconcsp 9 400")
    rc, outs, err = run_lines(bins["release"], lines, line_timeout=180)
    n_ok = 0
    for ln, o in zip(lines, outs + ["<no answer>"] * (len(lines) - len(outs))):
        run.cov["evaluations"] += 1
        if o.split() == ["1", "0", "0", "0"]:
            n_ok += 1; continue
        run.violation({"kind": "property-oracle-failed-on-implementation", "why": f"two threads reasoning over the shortest path 0 -> n-1 of one shared chain at the same time ({ln.split()[2]} 000 calls each): "
                       f"A (all true): first verdict / differing verdicts, B (all false): first verdict / differing verdicts = {o}; a verdict is the conjunction over the path on the data of THAT call: expected 1 0 0 0",
                       "harness_line": ln, "expected": "1 0 0 0", "got": o, "big": True, "rerun": "cd /verif && python3 bin/check.py C10 --replay <this file>"})
        break
    run.cov["concurrent_shortest_path_reasoning"] = {"runs": len(lines), "agree": n_ok}


def main():
    run_property("C10", PROPS, gen_cases, CHECKS, RULE + " SECOND PHASE: graphs from which causaloids were removed again (C11's removal phase): with both ends live and a path in the graph "
                 "store exactly that path's causaloids are evaluated in order up to the first that is not true; an end that is not live, or no path, gives an error",
                 check_entry="c10_check_entry", model=False, cross=removed,
                 extra_trusted=["petgraph astar not modelled: the returned path is validated per input (C15) and then fed to the model"])


_replay = mk_replay("C10", CHECKS, check_entry="c10_check_entry", model=False)


def replay(path):
    import json
    if json.load(open(path)).get("case", {}).get("family") in ("causalrm", "causalrm2"):
        import props.c11 as c11
        return c11.replay(path)
    return _replay(path)
