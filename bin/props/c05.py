"""C05 — Ring buffer slots: no overwrite before consumption, no unordered access."""
from props.ring_common import *
from props.ring_gens import gen_small_rings

PROPS = "theories/Props/C05.v"
RULE = ('as C04 with emphasis on small rings (1..8 slots) and many events; also stages that mix a mutable handler with others (known finding D9). Monitors: vector-clock happens-before race detection on every slot access with the Ordering arguments the code really passed; a fill of sequence s only after every last-stage handler returned from s-N')


def main():
    run_ring_property("C05", PROPS, gen_small_rings, RULE)


replay = replay_ring("C05")
