"""Shared driver for the causal-reasoning properties C01 C02 C10 C11 C12."""
import json
from vlib import *
from causalgen import Gen, data_for, call
from causalcheck import *


def builds(run):
    b, log = cargo_build("dc")
    if not b:
        fatal(run, "cargo build of harness/dc against /repo failed", log)
    return {"release": b}


class CausalCase(Case):
    """prefix = tree ints; ops = calls (each a tuple of ints)"""
    pass


def mk_case(tree, calls, meta):
    return Case("causal", tree, [tuple(c) for c in calls], meta)


MODEL_LINE = [None]


def python_oracle(checks):
    """build an oracle(case, impl_line, spec_line) from python checks on the parsed output; spec_line carries
    the Coq checker verdict ('checker:1') when a check_entry is configured"""
    def oracle(case, impl, spec):
        if spec is not None and isinstance(spec, str) and spec.startswith("checker:") and not spec.startswith("checker:1"):
            return f"proved checker rejected the implementation's output: {spec}"
        try:
            toks = [int(t) for t in impl.split()]
        except ValueError:
            return f"unparsable output {impl[:80]!r}"
        a = case.ints()
        top, p = parse_tree(a, 0); number(top)
        calls = parse_calls(a, p)
        segs = split_out(toks, calls)
        if segs is None or len(segs) != len(calls):
            return "output does not have one segment per call"
        for chk in checks:
            r = chk(case, top, calls, segs)
            if r: return r
        return None
    return oracle


def chk_singleton_law(diff_holder):
    """C11, justified by theorem C11_activation_mirrors_latest_evaluation: as long as the implementation evaluated exactly
    the sequence the model evaluated (same calls of the causal functions with the same observations, same results), the
    activation flag of every causaloid must be the model's (= verdict of its most recent successful evaluation, unchanged
    when not evaluated)"""
    def chk(case, top, calls, segs):
        ml = diff_holder[0].current_model_line if diff_holder[0] is not None else None
        if not ml: return None
        try:
            mt = [int(t) for t in ml.split()]
        except ValueError:
            return None
        msegs = split_out(mt, calls)
        if msegs is None: return None
        for i, (a, b) in enumerate(zip(segs, msegs)):
            if (a["res"], a["log"]) != (b["res"], b["log"]):
                return None           # evaluations diverged: not this oracle's business
            if a["flags"] != b["flags"]:
                return (f"after call {i}: the same evaluations happened as in the model, but is_active flags (pre-order) are {a['flags']} "
                        f"instead of {b['flags']} (latest successful verdict per causaloid)")
        return None
    return chk


def chk_model_verdict(diff_holder):
    """C02 / C01, justified by theorems C02_collection_is_conjunction_of_items, C02_nested_*_is_direct and C01_*: the model's
    verdict for a call IS the (short-circuit) conjunction over everything the structure contains, and it does not depend on
    the evaluation history (run_pure). An implementation verdict that differs from it is therefore a violation of the
    property on this input. Panics (model says the call panics) are not judged."""
    def chk(case, top, calls, segs):
        ml = diff_holder[0].current_model_line if diff_holder[0] is not None else None
        if not ml: return None
        try:
            mt = [int(t) for t in ml.split()]
        except ValueError:
            return None
        msegs = split_out(mt, calls)
        if msegs is None: return None
        for i, (a, b) in enumerate(zip(segs, msegs)):
            if b["res"] in (-999, -888) or a["res"] == -999: continue
            if a["res"] != b["res"]:
                return (f"call {i}: verdict {a['res']} but the conjunction over everything the structure contains (proved equal to the model's verdict) is {b['res']} "
                        f"(1 true, 0 false, -1 error); the implementation evaluated {len(a['log'])} causaloids, the model {len(b['log'])}")
        return None
    return chk


def chk_trace(case, top, calls, segs):
    for i, s in enumerate(segs):
        if s["res"] == -999: continue
        r = oracle_trace(s)
        if r: return f"call {i}: {r}"


def chk_recount(case, top, calls, segs):
    for i, s in enumerate(segs):
        r = oracle_recount(top, s)
        if r: return f"after call {i}: {r}"


def chk_nested_is_direct(case, top, calls, segs):
    """a direct reasoning call (code 0 / 4) followed by verify_all_causes (code 5) of the wrapping causaloid with the same data"""
    for i in range(len(calls) - 1):
        c1, c2 = calls[i], calls[i + 1]
        if c1["code"] in (0, 4) and c2["code"] == 5 and c1["data"] == c2["data"] and c1["idx"] == c2["idx"]:
            if (segs[i]["res"], segs[i]["log"]) != (segs[i + 1]["res"], segs[i + 1]["log"]):
                return f"calls {i},{i+1}: direct reasoning gave {segs[i]['res']} {segs[i]['log']} but the wrapping causaloid {segs[i+1]['res']} {segs[i+1]['log']}"


def chk_repeat(case, top, calls, segs):
    """repeating a call / calling on a clone never changes a verdict"""
    for i in range(len(calls) - 1):
        c1, c2 = calls[i], calls[i + 1]
        same = c1["data"] == c2["data"] and c1["idx"] == c2["idx"] and c1["a"] == c2["a"]
        if same and (c1["code"] == c2["code"] or {c1["code"], c2["code"]} == {0, 7}):
            if segs[i]["res"] != segs[i + 1]["res"]:
                return f"calls {i},{i+1}: same call, verdicts {segs[i]['res']} and {segs[i+1]['res']}"


def run_property(pid, props_file, gen_cases, checks, rule, check_entry=None, model=True, heads=None,
                 extra_trusted=(), assumptions=(), cross=None, level=None):
    run = Run(pid)
    if level: run.level = level
    run.do_proof(props_file)
    ok, msg = ensure_driver()
    if not ok:
        fatal(run, "model extraction / driver build", msg)
    bins = builds(run)
    cases, dist = gen_cases(run)
    holder = [None]
    checks = [c(holder) if getattr(c, "__name__", "") in ("chk_singleton_law", "chk_model_verdict") else c for c in checks]
    d = Differential(run, bins, (lambda c: "causal_model_entry") if model else None, None,
                     check_entry=(lambda c: check_entry) if check_entry else None,
                     oracle=python_oracle(checks),
                     harness_head=heads or (lambda c: "causal_%d" % c.meta.get("cont", 1)),
                     nontrivial=lambda c: len(c.prefix) > 12 and len(c.ops) >= 1)
    holder[0] = d
    B = 500
    for i in range(0, len(cases), B):
        d.process(cases[i:i + B])
    if cross:
        cross(run, d, bins, cases)
    found = d.finish()
    proof_failure_violation(run, found or run.violations)
    run.cov["rule"] = rule
    run.cov["distribution"] = dist
    run.cov["samples"] = [cases[0].to_json(), cases[-1].to_json()]
    run.finish(extra_trusted=["causal functions are external: a fixed family of fn items (threshold, negated threshold, contextual) whose verdict is decided by the observation value; "
                              "every call of a causal function is logged by the harness (function tag, observation)",
                              "the explicit stack of child iterators of reason_from_to_cause is modelled as recursion over the children lists; RwLock<bool> activation flags as plain cells",
                              "relational oracles on the implementation's output (trace conjunction, recount, nested = direct, repetition) are Python code in bin/causalcheck.py"] + list(extra_trusted),
               assumptions=list(assumptions))
    return run


def mk_replay(pid, checks, check_entry=None, model=True):
    def replay(path):
        run = Run(pid); ensure_driver(); bins = builds(run)
        holder = [None]
        checks2 = [c(holder) if getattr(c, "__name__", "") in ("chk_singleton_law", "chk_model_verdict") else c for c in checks]
        d = Differential(run, bins, (lambda c: "causal_model_entry") if model else None, None,
                         check_entry=(lambda c: check_entry) if check_entry else None, oracle=python_oracle(checks2),
                         harness_head=lambda c: "causal_%d" % c.meta.get("cont", 1))
        holder[0] = d
        return generic_replay(d, path)
    return replay
