"""Shared driver for the causal-reasoning properties C01 C02 C10 C11 C12."""
import json
from vlib import *
from causalgen import Gen, data_for, call
from causalcheck import *


def builds(run):
    b, log = cargo_build("dc")
    if not b:
        fatal(run, "cargo build of harness/dc against /repo failed", log)
    return {"release": b}


class CausalCase(Case):
    """prefix = tree ints; ops = calls (each a tuple of ints)"""
    pass


def mk_case(tree, calls, meta):
    return Case("causal", tree, [tuple(c) for c in calls], meta)


MODEL_LINE = [None]


def python_oracle(checks):
    """build an oracle(case, impl_line, spec_line) from python checks on the parsed output; spec_line carries
    the Coq checker verdict ('checker:1') when a check_entry is configured"""
    def oracle(case, impl, spec):
        if spec is not None and isinstance(spec, str) and spec.startswith("checker:") and not spec.startswith("checker:1"):
            return f"proved checker rejected the implementation's output: {spec}"
        try:
            toks = [int(t) for t in impl.split()]
        except ValueError:
            return f"unparsable output {impl[:80]!r}"
        a = case.ints()
        top, p = parse_tree(a, 0); number(top)
        calls = parse_calls(a, p)
        segs = split_out(toks, calls)
        if segs is None or len(segs) != len(calls):
            return "output does not have one segment per call"
        for chk in checks:
            r = chk(case, top, calls, segs)
            if r: return r
        return None
    return oracle


def chk_singleton_law(diff_holder):
    """C11, justified by theorem C11_activation_mirrors_latest_evaluation: as long as the implementation evaluated exactly
    the sequence the model evaluated (same calls of the causal functions with the same observations, same results), the
    activation flag of every causaloid must be the model's (= verdict of its most recent successful evaluation, unchanged
    when not evaluated)"""
    def chk(case, top, calls, segs):
        ml = diff_holder[0].current_model_line if diff_holder[0] is not None else None
        if not ml: return None
        try:
            mt = [int(t) for t in ml.split()]
        except ValueError:
            return None
        msegs = split_out(mt, calls)
        if msegs is None: return None
        for i, (a, b) in enumerate(zip(segs, msegs)):
            if (a["res"], a["log"]) != (b["res"], b["log"]):
                return None           # evaluations diverged: not this oracle's business
            if a["flags"] != b["flags"]:
                return (f"after call {i}: the same evaluations happened as in the model, but is_active flags (pre-order) are {a['flags']} "
                        f"instead of {b['flags']} (latest successful verdict per causaloid)")
        return None
    return chk


def chk_model_verdict(diff_holder):
    """C02 / C01, justified by theorems C02_collection_is_conjunction_of_items, C02_nested_*_is_direct and C01_*: the model's
    verdict for a call IS the (short-circuit) conjunction over everything the structure contains, and it does not depend on
    the evaluation history (run_pure). An implementation verdict that differs from it is therefore a violation of the
    property on this input. Panics (model says the call panics) are not judged."""
    def chk(case, top, calls, segs):
        ml = diff_holder[0].current_model_line if diff_holder[0] is not None else None
        if not ml: return None
        try:
            mt = [int(t) for t in ml.split()]
        except ValueError:
            return None
        msegs = split_out(mt, calls)
        if msegs is None: return None
        for i, (a, b) in enumerate(zip(segs, msegs)):
            if b["res"] in (-999, -888) or a["res"] == -999: continue
            if a["res"] != b["res"]:
                return (f"call {i}: verdict {a['res']} but the conjunction over everything the structure contains (proved equal to the model's verdict) is {b['res']} "
                        f"(1 true, 0 false, -1 error); the implementation evaluated {len(a['log'])} causaloids, the model {len(b['log'])}")
        return None
    return chk


def chk_trace(case, top, calls, segs):
    for i, s in enumerate(segs):
        if s["res"] == -999: continue
        r = oracle_trace(s)
        if r: return f"call {i}: {r}"


def chk_recount(case, top, calls, segs):
    for i, s in enumerate(segs):
        r = oracle_recount(top, s)
        if r: return f"after call {i}: {r}"


def chk_nested_is_direct(case, top, calls, segs):
    """a direct reasoning call (code 0 / 4) followed by verify_all_causes (code 5) of the wrapping causaloid with the same data"""
    for i in range(len(calls) - 1):
        c1, c2 = calls[i], calls[i + 1]
        if c1["code"] in (0, 4) and c2["code"] == 5 and c1["data"] == c2["data"] and c1["idx"] == c2["idx"]:
            if (segs[i]["res"], segs[i]["log"]) != (segs[i + 1]["res"], segs[i + 1]["log"]):
                return f"calls {i},{i+1}: direct reasoning gave {segs[i]['res']} {segs[i]['log']} but the wrapping causaloid {segs[i+1]['res']} {segs[i+1]['log']}"


def chk_repeat(case, top, calls, segs):
    """repeating a call / calling on a clone never changes a verdict"""
    for i in range(len(calls) - 1):
        c1, c2 = calls[i], calls[i + 1]
        same = c1["data"] == c2["data"] and c1["idx"] == c2["idx"] and c1["a"] == c2["a"]
        if same and (c1["code"] == c2["code"] or {c1["code"], c2["code"]} == {0, 7}):
            if segs[i]["res"] != segs[i + 1]["res"]:
                return f"calls {i},{i+1}: same call, verdicts {segs[i]['res']} and {segs[i+1]['res']}"


def run_property(pid, props_file, gen_cases, checks, rule, check_entry=None, model=True, heads=None,
                 extra_trusted=(), assumptions=(), cross=None, level=None):
    run = Run(pid)
    if level: run.level = level
    run.do_proof(props_file)
    ok, msg = ensure_driver()
    if not ok:
        fatal(run, "model extraction / driver build", msg)
    bins = builds(run)
    cases, dist = gen_cases(run)
    holder = [None]
    checks = [c(holder) if getattr(c, "__name__", "") in ("chk_singleton_law", "chk_model_verdict") else c for c in checks]
    d = Differential(run, bins, (lambda c: "causal_model_entry") if model else None, None,
                     check_entry=(lambda c: check_entry) if check_entry else None,
                     oracle=python_oracle(checks),
                     harness_head=heads or (lambda c: "causal_%d" % c.meta.get("cont", 1)),
                     nontrivial=lambda c: len(c.prefix) > 12 and len(c.ops) >= 1)
    holder[0] = d
    B = 500
    for i in range(0, len(cases), B):
        d.process(cases[i:i + B])
    if cross:
        cross(run, d, bins, cases)
    found = d.finish()
    proof_failure_violation(run, found or run.violations)
    run.cov["rule"] = rule
    run.cov["distribution"] = dist
    run.cov["samples"] = [cases[0].to_json(), cases[-1].to_json()]
    run.finish(extra_trusted=["causal functions are external: a fixed family of fn items (threshold, negated threshold, contextual) whose verdict is decided by the observation value; "
                              "every call of a causal function is logged by the harness (function tag, observation)",
                              "the explicit stack of child iterators of reason_from_to_cause is modelled as recursion over the children lists; RwLock<bool> activation flags as plain cells",
                              "relational oracles on the implementation's output (trace conjunction, recount, nested = direct, repetition) are Python code in bin/causalcheck.py"] + list(extra_trusted),
               assumptions=list(assumptions))
    return run


def mk_replay(pid, checks, check_entry=None, model=True):
    def replay(path):
        run = Run(pid); ensure_driver(); bins = builds(run)
        import json as _j
        if _j.load(open(path)).get("concurrent"):
            return conc_replay(pid, bins, path)
        if _j.load(open(path)).get("big"):
            return big_replay(bins, path)
        holder = [None]
        checks2 = [c(holder) if getattr(c, "__name__", "") in ("chk_singleton_law", "chk_model_verdict") else c for c in checks]
        d = Differential(run, bins, (lambda c: "causal_model_entry") if model else None, None,
                         check_entry=(lambda c: check_entry) if check_entry else None, oracle=python_oracle(checks2),
                         harness_head=lambda c: "causal_%d" % c.meta.get("cont", 1))
        holder[0] = d
        return generic_replay(d, path)
    return replay


def conc_phase(run, d, bins, cases, pid=None):
    """CONCURRENT reasoning calls over one shared model (reasoning methods take &self): two threads repeat reason calls with different
    data at the same time (harness family causalconc). A verdict is a function of model and data only (the model's calls are pure
    in the verdict: theorem C12 history independence), so every verdict of either thread must be the model's verdict for that
    thread's data - whatever the interleaving. Stress, not exhaustive: the schedule is the OS's."""
    pid = pid or run.prop
    from causalcheck import parse_tree, parse_calls, split_out
    graphs = [c for c in cases if c.prefix and c.prefix[0] == 2 and c.ops]
    graphs = graphs[: (60 if run.thorough else 14)]
    rounds_k = 300 if run.thorough else 150
    def toggle(o):
        return o - 1 if o % 10 == 1 else (o + 1 if o % 10 == 0 else o)
    singles = []; lines = []; meta = []
    for c in graphs:
        a = c.ints(); top, p = parse_tree(a, 0); calls = parse_calls(a, p)
        c0 = calls[0]
        data_a = list(c0["data"]); data_b = [toggle(o) for o in data_a]
        ca = call(0, 0, 0, c0["idx"], data_a); cb = call(0, 0, 0, c0["idx"], data_b)
        singles.append(Case("causal", c.prefix, [ca], {"cont": 1})); singles.append(Case("causal", c.prefix, [cb], {"cont": 1}))
        cc = call(0, rounds_k, 0, c0["idx"], data_a)
        lines.append("causalconc " + fmt(list(c.prefix) + cc)); meta.append(c)
    if not lines:
        return
    dl = [sc.line("causal_model_entry") for sc in singles]
    mout = driver_eval(dl)
    want = []
    for sc, mo in zip(singles, mout):
        a1 = sc.ints(); top1, p1 = parse_tree(a1, 0); calls1 = parse_calls(a1, p1)
        seg = split_out([int(t) for t in mo.split()], calls1)
        want.append(seg[0]["res"] if seg else None)
    rc, outs, err = run_lines(bins["release"], lines, line_timeout=120)
    n_ok = 0; total_calls = 0
    for k, (ln, c) in enumerate(zip(lines, meta)):
        o = outs[k] if k < len(outs) else "<no answer>"
        wa, wb = want[2 * k], want[2 * k + 1]
        run.cov["evaluations"] += 1
        try:
            got = [int(x) for x in o.split()]
        except ValueError:
            got = None
        total_calls += 2 * rounds_k * 1000
        if got is not None and len(got) == 4 and got[0] == wa and got[1] == wb and got[2] == 0 and got[3] == 0:
            n_ok += 1; continue
        why = (f"two threads reasoning at the same time over one shared model: thread A (data as given) first verdict {got[0] if got else o}, model {wa}; thread B (every verdict toggled) first verdict "
               f"{got[1] if got else '?'}, model {wb}; later calls with a verdict different from the thread's first one: A {got[2] if got else '?'}, B {got[3] if got else '?'} "
               f"(1 true, 0 false, -1 error). A verdict must depend on model and data only")
        run.violation({"kind": "property-oracle-failed-on-implementation", "why": why, "harness_line": ln, "concurrent": True, "want": [wa, wb],
                       "case": c.to_json(), "rerun": f"cd /verif && python3 bin/check.py {pid} --replay <this file>",
                       "note": "the interleaving is chosen by the OS scheduler: the replay repeats the stress run and reports whether the discrepancy shows again"})
        break
    run.cov["concurrent_reasoning"] = {"models": len(lines), "agree": n_ok, "reasoning_calls": total_calls, "threads": 2}
    big_phase(run, bins, pid)


def conc_replay(pid, bins, path):
    import json
    dj = json.load(open(path))
    bad = False
    for attempt in range(5):
        rc, outs, err = run_lines(bins["release"], [dj["harness_line"]], line_timeout=120)
        got = [int(x) for x in outs[0].split()] if outs else None
        print("attempt", attempt, "got", got, "want", dj["want"] + [0, 0])
        if got != dj["want"] + [0, 0]: bad = True; break
    print("REPRODUCED" if bad else "not reproduced")
    return 1 if bad else 0


def big_phase(run, bins, pid=None):
    """LARGE graphs of singleton causaloids (harness family causalbig), beyond what the list-based model evaluates in reasonable
    time. The expected answers are C01's theorem in closed form (the verdict is the conjunction over the causaloids reachable from
    the root; the walk evaluates them in chain order up to the first false one): long chains of 65..1200 causaloids with one false
    member at a chosen position (or none), and graphs of 70 000 / 140 000 causaloids whose reachable part is small."""
    pid = pid or run.prop
    rng = run.rng
    lines = []; want = []
    chain_sizes = [65, 129, 300, 1200] if run.thorough else [rng.choice([65, 70, 129]), rng.choice([200, 300])]
    for n in chain_sizes:
        for k in {-1, n - 1, rng.randrange(64, n), rng.randrange(0, min(n, 64))}:
            lines.append(f"causalbig {n} {k}"); want.append([0, k + 1, 0] if 0 <= k < n else [1, n, 1])
    for n in ([70000, 140000] if run.thorough else [70000]):
        lines.append(f"causalbig {n}"); want.append([n, 1, 1, 0, 1, 0])
    rc, outs, err = run_lines(bins["release"], lines, line_timeout=120)
    n_ok = 0
    for k, (ln, w) in enumerate(zip(lines, want)):
        run.cov["evaluations"] += 1
        o = outs[k] if k < len(outs) else "<no answer>"
        try:
            got = [int(x) for x in o.split()]
        except ValueError:
            got = None
        if got == w:
            n_ok += 1; continue
        if len(w) == 3:
            why = (f"chain of {ln.split()[1]} causaloids, the only false one at index {ln.split()[2]} (-1 = none): reason_all_causes / number of evaluations / the same through a wrapping "
                   f"causaloid are {got}, the conjunction over the reachable causaloids gives {w} (1 true, 0 false)")
        else:
            why = (f"graph of {ln.split()[1]} causaloids (root 0, edges 0->1->2, 0->3; the causaloids from index 60000 on evaluate false but are not reachable): size, reason_all_causes, "
                   f"shortest-path reasoning 0->2, id at index 0, contains(last), reason_single_cause(last) are {got}, expected {w}")
        run.violation({"kind": "property-oracle-failed-on-implementation", "why": why, "harness_line": ln, "expected": fmt(w), "got": o, "big": True,
                       "rerun": f"cd /verif && python3 bin/check.py {pid} --replay <this file>"})
        break
    run.cov["large_graphs"] = {"cases": len(lines), "agree_with_the_closed_form": n_ok}


def big_replay(bins, path):
    import json
    dj = json.load(open(path))
    rc, outs, err = run_lines(bins["release"], [dj["harness_line"]], line_timeout=120)
    got = outs[0] if outs else "<no answer>"
    print("expected:", dj["expected"], " got:", got)
    bad = got.split() != dj["expected"].split()
    print("REPRODUCED" if bad else "not reproduced")
    return 1 if bad else 0
