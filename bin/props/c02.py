"""C02 — Nested causal structures evaluate like the conjunction of what they contain."""
from props.causal_common import *

PROPS = "theories/Props/C02.v"


def gen_cases(run):
    rng = run.rng; cases = []
    dist = {"models": 0, "top": {"collection": 0, "graph": 0}, "depth": {}, "contextual_models": 0, "causaloids": 0, "pairs_direct_vs_wrapped": 0, "short_observation_vectors": 0}
    n = 6000 if run.thorough else 800
    for _ in range(n):
        g = Gen(rng, max_ids=14)
        depth = rng.choice([2, 2, 3, 3, 4])
        kind = rng.choice([1, 2])
        tree = g.tree(depth, kind, budget=rng.choice([8, 12, 16]))
        dist["models"] += 1; dist["top"]["collection" if kind == 1 else "graph"] += 1
        dist["depth"][depth] = dist["depth"].get(depth, 0) + 1; dist["causaloids"] += g.n_nodes
        if any(c for (_, _, c) in g.singles): dist["contextual_models"] += 1
        calls = []
        for _ in range(rng.randrange(1, 4)):
            data = data_for(rng, g, 14, p_true=rng.choice([0.8, 0.92, 0.98, 1.0]), p_err=rng.choice([0, 0.02, 0.08]))
            if rng.random() < 0.2:
                # fewer observations than items: nested items take the WHOLE vector, so a collection may legitimately hold
                # more items than there are observations (a singleton beyond the end panics, in the model as in the code)
                data = data[:rng.choice([1, 2, 3, 4, 6])]; dist["short_observation_vectors"] += 1
            idx = None
            if kind == 2 and rng.random() < 0.4:
                perm = list(range(14)); rng.shuffle(perm); idx = [(i, perm[i]) for i in range(14)]
            # direct reasoning over the structure, then the same through the wrapping causaloid
            calls.append(call(0 if kind == 2 else 4, 0, 0, idx, data))
            calls.append(call(5, 0, 0, idx, data)); dist["pairs_direct_vs_wrapped"] += 1
        # a top-level collection is held in any of the four ORDERED containers (slice, Vec, wrapped VecDeque, BTreeMap)
        meta = {"cont": rng.choice([0, 1, 2, 2, 3])} if kind == 1 else {}
        cases.append(mk_case(tree, calls, meta))
    return cases, dist


CHECKS = [chk_trace, chk_nested_is_direct, chk_model_verdict]
RULE = ("nesting trees to depth 4, fan-out up to 6: collections in collections, collections and graphs as non-root nodes of graphs, graphs in collections; nested nodes in first / "
        "middle / last position; mixed verdicts inside the nested parts; contextual singletons built on one of two contexts; 20% of the data vectors are cut to 1..6 observations (collections with more items than observations); each data vector is used twice: direct reasoning over the "
        "structure and verify_all_causes of the causaloid wrapping it. Oracles: trace = conjunction (T..T / T..TF / T..T[E]), wrapped == direct (verdict and evaluated sequence), and verdict == the structural conjunction over everything contained (the model's verdict, by theorem). "
        "Non-trivial = a model with more than two causaloids")


def removed(run, d, bins, cases):
    # nested structures whose graphs had causaloids REMOVED again: recount + reachability oracles of C11's second phase
    import props.c11 as c11
    c11.removed_phase(run, d, bins, None)
    big_phase(run, bins)


def main():
    run_property("C02", PROPS, gen_cases, CHECKS, RULE + " SECOND PHASE: graphs from which causaloids were removed again before reasoning (C11's removal phase): a true verdict "
                 "requires every live causaloid reachable over the remaining edges to have been evaluated", cross=removed)


_replay = mk_replay("C02", CHECKS)


def replay(path):
    import json
    if json.load(open(path)).get("case", {}).get("family") in ("causalrm", "causalrm2"):
        import props.c11 as c11
        return c11.replay(path)
    return _replay(path)
