"""C01 — Graph reasoning verdict is the conjunction over all reachable causaloids."""
from props.causal_common import *

PROPS = "theories/Props/C01.v"


def gen_cases(run):
    rng = run.rng; cases = []
    dist = {"graphs": 0, "calls": {"reason_all_causes": 0, "reason_subgraph_from_cause": 0}, "index_routed_calls": 0, "nodes": 0, "root_not_at_0": 0}
    n = 8000 if run.thorough else 900
    for _ in range(n):
        g = Gen(rng)
        tree = g.tree(1, 2, singles_only=True)
        nn = tree[2]; dist["graphs"] += 1; dist["nodes"] += nn
        if g.last_graph[2] not in (0, -1): dist["root_not_at_0"] += 1
        calls = []
        for _ in range(rng.randrange(1, 5)):
            data = data_for(rng, g, 14, p_true=rng.choice([0.7, 0.9, 0.97, 1.0]), p_err=rng.choice([0, 0.03, 0.1]))
            idx = None
            if rng.random() < 0.45:
                perm = list(range(14)); rng.shuffle(perm); idx = [(i, perm[i]) for i in range(14)]
                dist["index_routed_calls"] += 1
            if rng.random() < 0.5:
                calls.append(call(0, 0, 0, idx, data)); dist["calls"]["reason_all_causes"] += 1
            else:
                calls.append(call(1, rng.randrange(0, nn + 1), 0, idx, data)); dist["calls"]["reason_subgraph_from_cause"] += 1
        cases.append(mk_case(tree, calls, {}))
    return cases, dist


CHECKS = [chk_trace]
RULE = ("random DAGs of 1..6 singleton causaloids (relabelled so that edges do not follow index order; diamonds, fan-out, disconnected parts; root at any index or missing), "
        "distinct non-contiguous ids, threshold / negated-threshold / contextual functions; calls reason_all_causes and reason_subgraph_from_cause(any start, also out of range) "
        "with id routing or a non-identity data index; verdict mix mostly-true with false / error markers on side branches. Oracle: closure-based conjunction over the reachable set "
        "(extracted c01_check_entry). Non-trivial = a model with more than two causaloids")


def main():
    run_property("C01", PROPS, gen_cases, CHECKS, RULE, check_entry="c01_check_entry", cross=conc_phase)


replay = mk_replay("C01", CHECKS, check_entry="c01_check_entry")
