"""C06 — Ring buffer never deadlocks or loses a wake-up; write, drain and join terminate."""
from props.ring_common import *
from vlib import *
from props.ring_gens import gen_blocking

PROPS = "theories/Props/C06.v"
RULE = ('as C04 with emphasis on the blocking wait strategy with spurious wake-ups, zero-event pipelines, tiny rings; outcome of the scheduler: all managed threads finished vs. deadlock (no enabled thread) vs. step budget exhausted vs. panic inside the library')


def idle_phase(run):
    """REAL-TIME probes (plain build, real threads): a pipeline whose handler waits IDLE for 0.3 - 1.5 s (10^8 polls of a spinning
    handler; a parked one under the blocking strategy) before the first write must still complete write, drain and join, and its
    handler must see every event (single producer: all but sequence 0, finding D7). The scheduler-controlled runs cannot reach such
    poll counts within their step budget."""
    b, log = cargo_build("ds")
    if not b:
        fatal(run, "cargo build of harness/ds against /repo failed", log)
    probes = [(0, 0, 1500, 3), (1, 0, 300, 3), (0, 1, 900, 3), (1, 1, 300, 2)]
    if run.thorough: probes += [(0, 0, 4000, 5), (0, 1, 3000, 4)]
    n_ok = 0
    for (block, multi, idle, n) in probes:
        ln = f"idleprobe {block} {multi} {idle} {n}"
        rc, outs, err = run_lines(b, [ln], line_timeout=30)
        run.cov["evaluations"] += 1
        got = outs[0].split() if outs else ["<no answer>"]
        want = ["1", str(n if multi else n - 1)]
        if got == want:
            n_ok += 1; continue
        run.violation({"kind": "property-oracle-failed-on-implementation", "finding": "idle-probe",
                       "what": f"{'blocking' if block else 'spinning'} wait, {'multi' if multi else 'single'} producer: after the handler had waited idle for {idle} ms, "
                               f"write / drain / join of {n} events answered {' '.join(got)} (expected {' '.join(want)}: 1 = all returned, then the events the handler saw; -888 = no return within 4 s)",
                       "harness_line": ln, "expected": " ".join(want), "idle": True, "rerun": "cd /verif && python3 bin/check.py C06 --replay <this file>"})
        break
    # the MANUALLY WIRED multi-producer pattern of the module documentation: barrier from the sequencer, producer around a CLONE of it,
    # shut down by draining the clone (harness/ds family cloneprobe); the shut-down flag must be shared between clones
    n_clone = 0; cprobes = [(0, 3), (1, 3), (1, 0), (0, 0), (0, 30), (1, 30)]      # 30 events: several laps of the 8-slot ring after the monitor barrier was dropped
    if not run.violations:
        for (block, n) in cprobes:
            ln = f"cloneprobe {block} {n}"
            rc, outs, err = run_lines(b, [ln], line_timeout=30)
            run.cov["evaluations"] += 1
            got = outs[0].split() if outs else ["<no answer>"]
            want = ["1", str(n)]
            if got == want:
                n_clone += 1; continue
            run.violation({"kind": "property-oracle-failed-on-implementation", "finding": "clone-probe",
                           "what": f"manually wired multi-producer pipeline ({'blocking' if block else 'spinning'} wait), producer built around a clone of the sequencer: write of {n} events, "
                                   f"drain through the clone and join of the handler thread answered {' '.join(got)} (expected {' '.join(want)}: 1 = all returned, then the events handled; -888 = no return within 4 s)",
                           "harness_line": ln, "expected": " ".join(want), "idle": True, "rerun": "cd /verif && python3 bin/check.py C06 --replay <this file>"})
            break
    return {"idle_probes": {"issued": len(probes), "completed_as_required": n_ok}, "clone_probes": {"issued": len(cprobes), "completed_as_required": n_clone}}


def main():
    run_ring_property("C06", PROPS, gen_blocking, RULE, extra_phase=idle_phase)


_replay = replay_ring("C06")


def replay(path):
    import json
    d = json.load(open(path))
    if d.get("idle"):
        b, log = cargo_build("ds")
        rc, outs, err = run_lines(b, [d["harness_line"]], line_timeout=30)
        got = outs[0] if outs else "<no answer>"
        print("expected:", d["expected"], " got:", got)
        print("REPRODUCED" if got.split() != d["expected"].split() else "not reproduced")
        return 1 if got.split() != d["expected"].split() else 0
    return _replay(path)
