"""C06 — Ring buffer never deadlocks or loses a wake-up; write, drain and join terminate."""
from props.ring_common import *
from props.ring_gens import gen_blocking

PROPS = "theories/Props/C06.v"
RULE = ('as C04 with emphasis on the blocking wait strategy with spurious wake-ups, zero-event pipelines, tiny rings; outcome of the scheduler: all managed threads finished vs. deadlock (no enabled thread) vs. step budget exhausted vs. panic inside the library')


def main():
    run_ring_property("C06", PROPS, gen_blocking, RULE)


replay = replay_ring("C06")
