"""C13 — A later barrier stage sees an event only after the previous stage finished it."""
from props.ring_common import *
from props.ring_gens import gen_staged

PROPS = "theories/Props/C13.v"
RULE = ('as C04 with 2-3 barrier stages always, mixed handler kinds. Monitors: a stage-k handler is invoked for s only after every stage-(k-1) handler returned from s and sees their modifications; no handler of ANY stage is lapped by the producer')


def main():
    run_ring_property("C13", PROPS, gen_staged, RULE)


replay = replay_ring("C13")
