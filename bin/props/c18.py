"""C18 — Collection reasoning aggregates obey their counting laws."""
import json, struct, math
from vlib import *

PROPS = "theories/Props/C18.v"
CONT = {0: "slice", 1: "Vec", 2: "VecDeque", 3: "BTreeMap", 4: "HashMap"}


def fb(x):
    return struct.unpack("<Q", struct.pack("<d", x))[0]


def ulp(x, k):
    b = fb(x)
    return struct.unpack("<d", struct.pack("<Q", b + k))[0]


THR = [0.0, -0.0, 0.5, 0.55, 1.0, 10.0, -3.25, 1e-300, 1e300, float("inf"), -float("inf"), float("nan")]      # NaN: every ordered comparison with it is false
EFF = [0.0, -0.0, 1.0, 0.12344999999999999, 0.12345, 0.12345000000000002, 0.1234, 0.12349999999, 0.12350, -0.12345, -0.00001, 0.00009,
       0.99999, 1.00001, 2.5, 1e300, -1e300, 123456789.12345, 123456789.12344, float("inf"), float("nan"), 5e-324, 0.30000000000000004, 0.3]


def near(rng, x):
    r = rng.random()
    if math.isinf(x) or math.isnan(x):
        return x
    if x == 0 and r < 0.3: return -x          # the other zero: -0.0 >= +0.0 holds, total_cmp orders them
    if r < 0.4: return x
    if r < 0.6: return ulp(x, 1) if x >= 0 else ulp(x, -1) if fb(x) & (1 << 63) == 0 else ulp(x, 1)
    if r < 0.8 and x != 0: return ulp(x, -1)
    return x + rng.choice([-1.0, 1.0, 0.5, -0.00005, 0.00005])


def gen_cases(run):
    rng = run.rng; cases = []
    dist = {"kinds": {"assumptions": 0, "inferences": 0, "observations": 0}, "containers": {v: 0 for v in CONT.values()},
            "members": 0, "equal_to_threshold_members": 0, "nan_or_inf_members": 0, "verify_ops": 0}
    n_each = 1200 if run.thorough else 160
    for _ in range(n_each):
        for cont in range(5):
            n = rng.randrange(1, 9)
            if rng.random() < 0.02:
                # LARGE collections: past a byte, past a machine word of members
                n = rng.choice([63, 64, 65, 127, 129, 255, 256, 257, 300]); dist["large_collections"] = dist.get("large_collections", 0) + 1
            ids = rng.sample(range(1, 60 if n < 50 else 5000), n)
            # --- assumptions with a verification history
            fns = [rng.choice([0, 1, 2, 3, 4, 5, 6, 7, 100, 101]) for _ in range(n)]
            pre = [0, cont, n]
            for i, f in zip(ids, fns): pre += [i, f]
            ops = []
            for _ in range(rng.randrange(1, 7)):
                data = tuple(rng.choice([0, 1]) for _ in range(8))
                r = rng.random()
                if r < 0.12: ops.append((2, 0) + data); dist["clone_ops"] = dist.get("clone_ops", 0) + 1     # continue on a clone of the collection
                elif r < 0.5: ops.append((0, 0) + data)
                else: ops.append((1, rng.randrange(0, n + 1)) + data)
            cases.append(Case("collections", pre, ops, {"kind": "assumptions", "container": CONT[cont]}))
            dist["kinds"]["assumptions"] += 1; dist["verify_ops"] += len(ops)
            # --- inferences
            pre = [1, cont, n]
            for i in ids:
                thr = rng.choice(THR); obs = near(rng, thr) if rng.random() < 0.7 else rng.choice(THR + EFF)
                tgt = rng.choice(EFF); eff = near(rng, tgt) if rng.random() < 0.7 else rng.choice(EFF)
                pre += [i, fb(obs), fb(thr), fb(eff), fb(tgt)]
                if obs == thr: dist["equal_to_threshold_members"] += 1
                if any(math.isnan(v) or math.isinf(v) for v in (obs, thr, eff, tgt)): dist["nan_or_inf_members"] += 1
            cases.append(Case("collections", pre, [], {"kind": "inferences", "container": CONT[cont]}))
            dist["kinds"]["inferences"] += 1
            # --- observations with several target pairs
            pre = [2, cont, n]
            vals = []
            for i in ids:
                thr = rng.choice(THR); obs = near(rng, thr); eff = rng.choice(EFF)
                vals.append((obs, eff)); pre += [i, fb(obs), fb(eff)]
            qs = []
            for _ in range(rng.randrange(1, 5)):
                o, e = rng.choice(vals)
                qs.append((fb(near(rng, o)), fb(e if rng.random() < 0.7 else rng.choice(EFF))))
            cases.append(Case("collections", pre, qs, {"kind": "observations", "container": CONT[cont]}))
            dist["kinds"]["observations"] += 1
            dist["containers"][CONT[cont]] += 3; dist["members"] += 3 * n
    # VERY LARGE collections (more than 65 536 members) in the Vec container (all four containers in the thorough tier). A count kept
    # in a narrow integer only shows when THAT count passes 65 536, so every counted class gets a collection it dominates (99 % of
    # the members): valid / invalid assumptions, inferable / inverse-inferable / non-inferable inferences, observations that
    # meet / miss the target.
    def skew(dom, others):
        return dom if rng.random() < 0.99 else rng.choice(others)
    for cont in ((1, 2, 0, 3) if run.thorough else (1,)):
        for dom in (100, 101):
            n = 66300 + rng.randrange(0, 50); pre = [0, cont, n]
            for i in range(1, n + 1): pre += [i, skew(dom, [0, 1, 100, 101])]
            cases.append(Case("collections", pre, [(0, 0) + tuple(rng.choice([0, 1]) for _ in range(8))], {"kind": "assumptions", "container": CONT[cont], "huge": True}))
        for dom in ((0.75, 1.0), (0.25, 1.0), (0.75, 2.0)):
            n = 66300 + rng.randrange(0, 50); pre = [1, cont, n]
            for i in range(1, n + 1):
                obs, eff = skew(dom, [(0.75, 1.0), (0.25, 1.0), (0.75, 2.0), (0.25, 2.0)])
                pre += [i, fb(obs), fb(0.5), fb(eff), fb(1.0)]
            cases.append(Case("collections", pre, [], {"kind": "inferences", "container": CONT[cont], "huge": True}))
        for dom in ((0.75, 1.0), (0.25, 2.0)):
            n = 66300 + rng.randrange(0, 50); pre = [2, cont, n]
            for i in range(1, n + 1):
                obs, eff = skew(dom, [(0.75, 1.0), (0.25, 1.0), (0.75, 2.0), (0.25, 2.0)])
                pre += [i, fb(obs), fb(eff)]
            cases.append(Case("collections", pre, [(fb(0.5), fb(1.0))], {"kind": "observations", "container": CONT[cont], "huge": True}))
        dist["collections_above_65536_members"] = dist.get("collections_above_65536_members", 0) + 7
    return cases, dist


def builds(run):
    b, log = cargo_build("dc")
    if not b:
        fatal(run, "cargo build of harness/dc against /repo failed", log)
    return {"release": b}


# the two "exactly 100 / exactly 0" theorems go through Flocq's specification of IEEE division, which rests on the classical
# real-number axioms of the Coq standard library; every other theorem of C18 is closed under the global context
FLOCQ_AXIOMS = ("ClassicalDedekindReals.sig_not_dec", "ClassicalDedekindReals.sig_forall_dec",
                "FunctionalExtensionality.functional_extensionality_dep", "Classical_Prop.classic")


def unfb(b):
    return struct.unpack("<d", struct.pack("<Q", b))[0]


def member_oracle(case, impl, spec):
    """the counting-law checker (proved, extracted) first; then, for observation collections, the DOCUMENTED member predicate itself,
    evaluated independently with the host's IEEE-754 doubles: effect_observed(thr, eff) = observation >= thr && observed_effect == eff
    (protocols/observable/mod.rs). The checker recomputes the aggregates from the member verdicts the implementation reports, so a
    wrong member verdict is only seen here (and by the model)."""
    if spec != "checker:1":
        return f"proved checker rejected impl output {impl[:300]!r}: {spec}"
    if case.prefix[0] != 2:
        return None
    try:
        n = case.prefix[2]
        mem = {case.prefix[3 + 3 * i]: (unfb(case.prefix[4 + 3 * i]), unfb(case.prefix[5 + 3 * i])) for i in range(n)}
        toks = [int(x) for x in impl.split()]; p = 0
        for q in case.ops:
            thr, tgt = unfb(q[0]), unfb(q[1])
            for _ in range(n):
                i, v = toks[p], toks[p + 1]; p += 2
                o, e = mem[i]
                want = 1 if (o >= thr and e == tgt) else 0
                if v != want:
                    return (f"member {i}: effect_observed(threshold {thr!r}, effect {tgt!r}) on observation {o!r} with observed effect {e!r} answered {v}; "
                            f"the documented predicate (observation >= threshold and observed_effect == effect) gives {want}")
            p += 4
    except (KeyError, IndexError, ValueError):
        return None
    return None


def mk_diff(run, bins):
    return Differential(run, bins, lambda c: "collections_model_entry", None, check_entry=lambda c: "collections_check_entry",
                        oracle=member_oracle, nontrivial=lambda c: c.prefix[2] >= 2)


def main():
    run = Run("C18")
    run.do_proof(PROPS, allowed_axioms=FLOCQ_AXIOMS)
    ok, msg = ensure_driver()
    if not ok:
        fatal(run, "model extraction / driver build", msg)
    bins = builds(run)
    cases, dist = gen_cases(run)
    d = mk_diff(run, bins)
    B = 1000
    for i in range(0, len(cases), B):
        d.process(cases[i:i + B])
    found = d.finish()
    proof_failure_violation(run, found or run.violations)
    run.cov["rule"] = ("collections of 1..8 members with distinct non-monotone ids in each of the five container types; assumptions: fixed family of EvalFn items, "
                       "verification histories of verify_all / verify_one(position, also out of range) with 0/1 data, every method after every op; inferences: observation = threshold, "
                       "+-1 ulp, +-0, inf, NaN, effects/targets straddling the 4-decimal truncation boundary (0.12344999../0.12345/0.1235, negatives, 1e300); observations: several "
                       "(threshold, effect) target pairs aimed at members. Oracle: the counting-law checker recomputes every aggregate from the member predicates the implementation "
                       "itself reports. Non-trivial = at least two members")
    run.cov["distribution"] = dist
    run.cov["samples"] = [cases[0].to_json(), cases[1].to_json(), cases[2].to_json()]
    run.finish(extra_trusted=["binary64 arithmetic modelled with Coq's SpecFloat (round to nearest even); NaN payloads not represented (canonical NaN on both sides)",
                              "f64::total_cmp modelled on the bit patterns; f64::trunc followed by == as integer/inf/NaN classes",
                              "Flocq (Debian package, /usr/lib/ocaml/coq/user-contrib/Flocq): Bdiv_correct and the SpecFloat equivalence lemmas of IEEE754/PrimFloat.v, used by the two theorems "
                              "C18_all_satisfy_gives_exactly_100 / C18_none_satisfies_gives_exactly_0 only; axioms they depend on (standard library, via Flocq / Reals): " + ", ".join(FLOCQ_AXIOMS)],
               assumptions=["non-empty collections (as the property states)",
                            "percentage == 100 / 0 in the all / none cases is proved for 1 .. 2^64 members (Collections/Percent.v, through Flocq)"])


def replay(path):
    run = Run("C18"); ensure_driver(); bins = builds(run)
    return generic_replay(mk_diff(run, bins), path)
