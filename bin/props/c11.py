"""C11 — Activation state mirrors the latest evaluation and aggregate counts agree."""
from props.causal_common import *

PROPS = "theories/Props/C11.v"


def gen_cases(run):
    rng = run.rng; cases = []
    dist = {"models": 0, "calls": 0, "calls_by_code": {}, "histories_with_errors": 0}
    n = 5000 if run.thorough else 600
    for _ in range(n):
        g = Gen(rng)
        kind = rng.choice([1, 2, 2])
        tree = g.tree(rng.choice([1, 2, 3]), kind)
        nn = tree[2]
        calls = []
        L = rng.randrange(2, 26 if run.thorough else 14)
        err = False
        for _ in range(L):
            pe = rng.choice([0, 0, 0.05, 0.2])
            data = data_for(rng, g, 14, p_true=rng.choice([0.3, 0.6, 0.9, 1.0]), p_err=pe)
            err = err or pe > 0
            idx = None
            if kind == 2 and rng.random() < 0.3:
                perm = list(range(14)); rng.shuffle(perm); idx = [(i, perm[i]) for i in range(14)]
            if kind == 2:
                code = rng.choice([0, 0, 1, 1, 2, 5])
                c = call(code, rng.randrange(0, nn + 1), 0, idx, data if code != 2 else data[:rng.choice([1, 1, 2, 3])])
            else:
                c = call(rng.choice([4, 4, 5, 8]), 0, 0, None, data)
            calls.append(c)
            dist["calls_by_code"][c[0]] = dist["calls_by_code"].get(c[0], 0) + 1
        dist["models"] += 1; dist["calls"] += L
        if err: dist["histories_with_errors"] += 1
        # a top-level collection is held in any of the four ORDERED containers (slice, Vec, wrapped VecDeque, BTreeMap)
        meta = {"cont": rng.choice([0, 1, 2, 2, 3])} if kind == 1 else {}
        if kind == 1: dist.setdefault("containers", {}); dist["containers"][meta["cont"]] = dist["containers"].get(meta["cont"], 0) + 1
        cases.append(mk_case(tree, calls, meta))
    return cases, dist


def chk_singletons_vs_model(case, top, calls, segs):
    # handled by the correspondence: when the evaluated sequences agree with the model's, the flags must too
    return None


CHECKS = [chk_recount, chk_singleton_law]
RULE = ("histories of 2..25 evaluation / reasoning calls with VARYING data over one model (graphs with nested nodes, collections, nesting depth up to 3): reason_all_causes, "
        "reason_subgraph_from_cause, reason_single_cause (1..3 observations), verify_all_causes, per-item evaluation; error markers so that erroring evaluations occur; after EVERY call "
        "is_active of every causaloid of the model (pre-order, wrappers included) and all aggregates. Oracles: wrapper-active == any member active, aggregates == recount; the singleton "
        "law (active == latest successful verdict, untouched == unchanged) is the model's theorem and is enforced by the correspondence of flags AND evaluated sequences")


# ---- graphs from which causaloids have been REMOVED again (the Coq model covers add-only graphs; here the recount oracle, which is
# the property itself, is applied to the implementation's own output: harness family causalrm) -------------------------------------
def gen_removed(run):
    rng = run.rng; cases = []
    n = 2500 if run.thorough else 300
    for _ in range(n):
        g = Gen(rng)
        tree = g.tree(1, 2, singles_only=True, nmax=rng.choice([3, 4, 6, 8]))
        nn = tree[2]
        if nn < 2: continue
        k = rng.randrange(1, min(3, nn))
        removed = rng.sample(range(nn), k)
        if nn >= 4 and rng.random() < 0.5:
            # two removals, one of them the index that equals the node count afterwards: then "last index = node count" is not a
            # live node and the reachability oracle applies, while live indices above the node count exist
            other = rng.choice([x for x in range(nn) if x != nn - 2])
            removed = sorted({nn - 2, other})
        live = [i for i in range(nn) if i not in removed]
        calls = []
        for _ in range(rng.randrange(1, 6)):
            data = data_for(rng, g, 14, p_true=rng.choice([0.3, 0.6, 0.9, 1.0]), p_err=rng.choice([0, 0.05]))
            code = rng.choice([1, 2, 2, 0, 5, 3, 3])
            a = rng.choice(live) if rng.random() < 0.9 else rng.randrange(0, nn)
            b = (rng.choice(live) if rng.random() < 0.9 else rng.randrange(0, nn)) if code == 3 else 0
            calls.append(call(code, a, b, None, data if code != 2 else data[:1]))
        # one case in four: the graph object first held a bigger model (all active) and was cleared before this model was built
        prefill = rng.randrange(1, 4) if rng.random() < 0.25 else 0
        if prefill and rng.random() < 0.5: removed = []
        if removed and rng.random() < 0.4:
            # causaloids added AFTER the removals (they take over freed indices), each hung below a live causaloid (new sinks: the graph stays acyclic)
            top0, _ = parse_tree(list(tree), 0)
            used = {kd["id"] for kd in top0["kids"]}
            fresh = [x for x in range(14) if x not in used]
            rng.shuffle(fresh)
            k_add = min(len(fresh), rng.choice([1, 1, 2]))
            singles = []; redges = []
            for j in range(k_add):
                singles += [0, fresh[j], 900 + j, rng.choice([0, 1]), 0]
                if live:
                    redges.append((rng.choice(live), nn + j, 0))
                    if j > 0 and rng.random() < 0.5: redges.append((nn + j - 1, nn + j, 0))
            # calls may address the re-added causaloids through the index the model of the allocator gives them; the oracle does not rely on it
            enc = list(tree) + [len(removed)] + removed + [prefill] + [k_add] + singles + [len(redges)] + [x for e in redges for x in e]
            cases.append(Case("causalrm2", enc, [tuple(c) for c in calls], {"removed": removed, "n": nn, "prefill": prefill, "readd": k_add}))
        else:
            cases.append(Case("causalrm", list(tree) + [len(removed)] + removed + [prefill], [tuple(c) for c in calls], {"removed": removed, "n": nn, "prefill": prefill}))
    return cases


def oracle_removed(case, impl, spec):
    try:
        toks = [int(t) for t in impl.split()]
    except ValueError:
        return f"unparsable output {impl[:60]!r}"
    if toks == [-999]: return "the harness call panicked outside a reasoning call"
    a = case.ints()
    top, p = parse_tree(a, 0)
    nrem = a[p]; removed = set(a[p + 1:p + 1 + nrem]); p += 1 + nrem + 1      # + the prefill count
    n0 = case.meta["n"]
    live = [k for k in range(n0) if k not in removed]
    idmap = {k: top["kids"][k]["id"] for k in live} if top.get("kind") == 2 else {}
    edges_all = [e for e in top.get("edges", []) if e[0] not in removed and e[1] not in removed]      # a removal deletes the incident edges
    if case.fam == "causalrm2":
        nadd = a[p]; p += 1
        new_ids = []
        for _ in range(nadd):
            new_ids.append(a[p + 1]); p += 5
        ne = a[p]; p += 1
        redges = [(a[p + 3 * i], a[p + 3 * i + 1], a[p + 3 * i + 2]) for i in range(ne)]; p += 3 * ne
        if len(toks) < 1 + nadd or toks[0] != nadd: return "the report of the re-added causaloids is missing"
        given = toks[1:1 + nadd]; toks = toks[1 + nadd:]
        for j, ix in enumerate(given):
            # an index returned by an add is FRESH: not the index of a live causaloid
            if ix < 0 or ix in live:
                return (f"add_causaloid after the removal of {sorted(removed)} returned index {ix}, which is the index of a live causaloid (live: {sorted(live)}); "
                        f"re-added causaloid number {j}")
            live.append(ix); idmap[ix] = new_ids[j]
        live.sort()
        res = lambda x: given[x - n0] if x >= n0 else x
        edges_all += [(res(x), res(y), w) for (x, y, w) in redges]
    calls = parse_calls(a, p)
    segs = split_out(toks, calls)
    if segs is None or len(segs) != len(calls): return "output does not match the calls"
    nlive = len(live)
    for i, s in enumerate(segs):
        flags = s["flags"]
        if len(flags) != 1 + nlive: return f"call {i}: {len(flags) - 1} live members reported, {nlive} expected"
        mem = flags[1:]; cnt = sum(mem); ag = s["aggs"]
        if flags[0] != (1 if cnt > 0 else 0): return f"after call {i}: graph-wrapping causaloid active={flags[0]} but live members {mem} (removed {sorted(removed)})"
        if len(ag) < 3: return "aggregates missing"
        if ag[0] != (1 if cnt == nlive else 0): return f"after call {i}: all_active={ag[0]} but {cnt}/{nlive} live members active (removed {sorted(removed)})"
        if ag[1] != fbits(float(cnt)): return f"after call {i}: number_active differs from the recount {cnt} over the live members {mem} (removed {sorted(removed)})"
        if nlive > 0 and ag[2] != fbits(cnt / nlive * 100.0): return f"after call {i}: percent_active differs from {cnt}/{nlive}*100"
    # SHORTEST-PATH REASONING on a graph with removed causaloids: both ends live and a path reported by the graph store -> exactly the
    # causaloids of that path are evaluated, in order, up to the first one that is not true, and the verdict is their conjunction;
    # an end that is not a live causaloid, or no path -> an error and no evaluation
    live_set = set(live)
    if top.get("kind") == 2:
        ids_ = idmap
        for i, (c, sg) in enumerate(zip(calls, segs)):
            if c["code"] != 3: continue
            pth = sg.get("path")
            ends_live = c["a"] in live_set and c["b"] in live_set
            if not ends_live or not pth or c["a"] == c["b"]:
                # identical start and stop are refused by get_shortest_path ("Start and Stop node identical"), as the C10 model has it
                if sg["res"] != -1 or sg["log"]:
                    return (f"call {i}: reason_shortest_path_between_causes({c['a']},{c['b']}) answered {sg['res']} with {len(sg['log'])} evaluations although "
                            + ("an end is not a live causaloid" if not ends_live else ("start and stop are identical" if c["a"] == c["b"] else "the graph store reports no path"))
                            + f" (removed {sorted(removed)})")
                continue
            if any(k not in live_set for k in pth) or pth[0] != c["a"] or pth[-1] != c["b"]:
                return f"call {i}: the graph store's path {pth} does not run from {c['a']} to {c['b']} over live causaloids (removed {sorted(removed)})"
            if sg["res"] == -1 and not sg["log"]:
                return (f"call {i}: reason_shortest_path_between_causes({c['a']},{c['b']}) failed without evaluating anything although both ends are live causaloids and the graph "
                        f"store reports the path {pth} (removed {sorted(removed)})")
            vs = [tag_verdict(t, o) for (t, o) in sg["log"]]
            want_ids = [ids_[k] for k in pth][:len(sg["log"])]
            got_ids = [o // 10 for (_, o) in sg["log"]]
            if all(x < len(c["data"]) for x in want_ids) and got_ids != want_ids:
                return f"call {i}: evaluated causaloid ids {got_ids}, the path {pth} has ids {[ids_[k] for k in pth]}"
            if any(v != "T" for v in vs[:-1]): return f"call {i}: evaluation went on after a causaloid that was not true ({vs})"
            exp = {"T": 1, "F": 0, "E": -1}[vs[-1]] if vs else None
            if vs and vs[-1] == "T" and len(vs) != len(pth): return f"call {i}: only {len(vs)} of the {len(pth)} causaloids of the path were evaluated and all were true"
            if exp is not None and sg["res"] != exp: return f"call {i}: verdict {sg['res']} but the evaluated causaloids gave {vs}"
    # REACHABILITY: a true verdict of reason_all_causes / reason_subgraph_from_cause means every LIVE causaloid reachable from the start
    # over the remaining edges was evaluated (each evaluation is logged with its observation = 10 * id + code). Judged only when the
    # node count is not itself a live index: the traversal stops at "last index = node count", which on a graph with removed
    # causaloids can be a live node (then the original code may legitimately cut the walk short)
    if nlive not in live and top.get("kind") == 2:
        ids = idmap
        succ = {k: [] for k in live}
        for (x, y, w) in edges_all:
            if x in succ and y in succ and y not in succ[x]: succ[x].append(y)
        for i, (c, sg) in enumerate(zip(calls, segs)):
            if c["code"] not in (0, 1) or sg["res"] != 1: continue
            start = top["root"] if c["code"] == 0 else c["a"]
            if start not in succ: continue
            seen = {start}; todo = [start]
            while todo:
                x = todo.pop()
                for y in succ[x]:
                    if y not in seen: seen.add(y); todo.append(y)
            evaluated = {o // 10 for (_, o) in sg["log"]}
            missing = sorted(k for k in seen if ids[k] < len(c["data"]) and ids[k] not in evaluated)
            if missing:
                return (f"call {i} returned true but the live causaloid(s) at index {missing} (ids {[ids[k] for k in missing]}), reachable from index {start} over the remaining edges, "
                        f"were never evaluated (removed {sorted(removed)}, evaluated ids {sorted(evaluated)})")
    return None


def removed_phase(run, d, bins, cases_unused):
    cases = gen_removed(run)
    d2 = Differential(run, bins, None, None, oracle=oracle_removed, harness_head=lambda c: c.fam, nontrivial=lambda c: len(c.ops) >= 2)
    for i in range(0, len(cases), 500):
        d2.process(cases[i:i + 500])
    d2.finish()
    run.cov["graphs_with_removed_causaloids"] = len(cases)
    run.cov["of_which_with_causaloids_added_after_the_removals"] = sum(1 for c in cases if c.fam == "causalrm2")


def readers_phase(run, bins):
    """READERS AGAINST AN EVALUATOR (harness family causalrd): while other threads only read is_active(), one thread evaluates a contextual
    and a plain singleton alternately true / false and reads the flag back after every evaluation: it is the only writer, so the flag
    must be the verdict just returned (activation mirrors the latest evaluation). Stress: the schedule is the OS's."""
    if run.violations: return
    ln = f"causalrd {400 if run.thorough else 150} 3"
    rc, outs, err = run_lines(bins["release"], [ln], line_timeout=180)
    run.cov["evaluations"] += 1
    o = outs[0] if outs else "<no answer>"
    if o.split() != ["0", "0"]:
        run.violation({"kind": "property-oracle-failed-on-implementation", "why": f"one evaluating thread, three threads that only read is_active(): evaluations after which the activation flag was not the verdict "
                       f"just returned (contextual singleton, plain singleton) = {o}; expected 0 0", "harness_line": ln, "expected": "0 0", "got": o, "big": True,
                       "rerun": "cd /verif && python3 bin/check.py C11 --replay <this file>"})
    run.cov["readers_against_evaluator"] = {"runs": 1, "answer": o}


def empty_phase(run, d, bins, cases_unused):
    """EMPTY collections in every container: a recount over no members says all-active (vacuously), 0 active; reasoning is refused.
    The Coq model is for non-empty collections; the recount oracle is applied to the implementation's own output"""
    removed_phase(run, d, bins, None)
    rng = run.rng
    cases = []
    for cont in (0, 1, 2, 3, 4):
        data = [10 * k + 1 for k in range(14)]
        cases.append(Case("causal", [1, 40 + cont, 0], [tuple(call(4, 0, 0, None, data)), tuple(call(5, 0, 0, None, data))], {"cont": cont}))
    def oracle(case, impl, spec):
        try:
            toks = [int(t) for t in impl.split()]
        except ValueError:
            return f"unparsable output {impl[:60]!r}"
        a = case.ints(); top, p = parse_tree(a, 0); number(top); calls = parse_calls(a, p)
        segs = split_out(toks, calls)
        if segs is None: return "output does not match the calls"
        for i, sg in enumerate(segs):
            r = oracle_recount(top, sg)
            if r: return f"empty collection, after call {i}: {r}"
            if sg["res"] == 1: return f"empty collection: call {i} answered true (nothing was evaluated)"
        return None
    d3 = Differential(run, bins, None, None, oracle=oracle, harness_head=lambda c: "causal_%d" % c.meta["cont"], nontrivial=lambda c: True)
    d3.process(cases); d3.finish()
    run.cov["empty_collections"] = len(cases)


def main():
    run_property("C11", PROPS, gen_cases, CHECKS, RULE + " SECOND PHASE: graphs of singletons from which 1-2 causaloids were removed again (remove_causaloid) before reasoning, a quarter of them built in a graph object that had held a bigger, fully active model and was cleared: wrapper-active and the aggregates must equal a recount over the LIVE members (oracle on the implementation's own output; the Coq model covers add-only graphs). THIRD PHASE: empty collections in the five containers (recount over no members)", cross=lambda run, d, bins, cases: (empty_phase(run, d, bins, cases), readers_phase(run, bins)))


_replay = mk_replay("C11", CHECKS)


def replay(path):
    import json
    dj = json.load(open(path))
    if dj.get("case", {}).get("family") in ("causalrm", "causalrm2"):
        run = Run("C11"); ensure_driver(); bins = builds(run)
        return generic_replay(Differential(run, bins, None, None, oracle=oracle_removed, harness_head=lambda c: c.fam), path)
    return _replay(path)
