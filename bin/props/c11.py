"""C11 — Activation state mirrors the latest evaluation and aggregate counts agree."""
from props.causal_common import *

PROPS = "theories/Props/C11.v"


def gen_cases(run):
    rng = run.rng; cases = []
    dist = {"models": 0, "calls": 0, "calls_by_code": {}, "histories_with_errors": 0}
    n = 5000 if run.thorough else 600
    for _ in range(n):
        g = Gen(rng)
        kind = rng.choice([1, 2, 2])
        tree = g.tree(rng.choice([1, 2, 3]), kind)
        nn = tree[2]
        calls = []
        L = rng.randrange(2, 26 if run.thorough else 14)
        err = False
        for _ in range(L):
            pe = rng.choice([0, 0, 0.05, 0.2])
            data = data_for(rng, g, 14, p_true=rng.choice([0.3, 0.6, 0.9, 1.0]), p_err=pe)
            err = err or pe > 0
            idx = None
            if kind == 2 and rng.random() < 0.3:
                perm = list(range(14)); rng.shuffle(perm); idx = [(i, perm[i]) for i in range(14)]
            if kind == 2:
                code = rng.choice([0, 0, 1, 1, 2, 5])
                c = call(code, rng.randrange(0, nn + 1), 0, idx, data if code != 2 else data[:rng.choice([1, 1, 2, 3])])
            else:
                c = call(rng.choice([4, 4, 5, 8]), 0, 0, None, data)
            calls.append(c)
            dist["calls_by_code"][c[0]] = dist["calls_by_code"].get(c[0], 0) + 1
        dist["models"] += 1; dist["calls"] += L
        if err: dist["histories_with_errors"] += 1
        cases.append(mk_case(tree, calls, {}))
    return cases, dist


def chk_singletons_vs_model(case, top, calls, segs):
    # handled by the correspondence: when the evaluated sequences agree with the model's, the flags must too
    return None


CHECKS = [chk_recount, chk_singleton_law]
RULE = ("histories of 2..25 evaluation / reasoning calls with VARYING data over one model (graphs with nested nodes, collections, nesting depth up to 3): reason_all_causes, "
        "reason_subgraph_from_cause, reason_single_cause (1..3 observations), verify_all_causes, per-item evaluation; error markers so that erroring evaluations occur; after EVERY call "
        "is_active of every causaloid of the model (pre-order, wrappers included) and all aggregates. Oracles: wrapper-active == any member active, aggregates == recount; the singleton "
        "law (active == latest successful verdict, untouched == unchanged) is the model's theorem and is enforced by the correspondence of flags AND evaluated sequences")


def main():
    run_property("C11", PROPS, gen_cases, CHECKS, RULE)


replay = mk_replay("C11", CHECKS)
