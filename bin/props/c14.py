"""C14 — Sequencers hand out disjoint gap-free ranges; cursor is the published prefix."""
from props.ring_common import *
from props.ring_gens import gen_multi

PROPS = "theories/Props/C14.v"
RULE = ('as C04 with emphasis on the multi producer with 2-3 writer threads, ring sizes 2..128 (bitmap below / at / above one word), small batches. Monitors: every write gets consecutive sequences of the requested length, the successful CASes on the high watermark tile the sequence space in claim order, the cursor never decreases and never covers an unwritten sequence, after all claimants published the cursor equals the highest claimed sequence. '
        'SECOND PHASE (sequencer API driven directly from one thread, harness/ds family seqapi): random histories of next(count) / publish / consumer progress on SingleProducerSequencer (publishes in claim order, SEVERAL claims outstanding) and MultiProducerSequencer (publishes in ANY order), sizes 2..128, 0..3 gating cursors, only claims that do not block; implementation output compared with the extracted sequential model (Disruptor/SeqApi.v) and judged by the extracted property checker [check]')
KF_D8 = "C14-D8-multi-publish-stranding"
KF_D13 = "C14-D13-sequencer-clones-overlap"


class MpSim:
    """what the multi-producer cursor does (ready bits by residue, low watermark); only used to generate realistic consumer
    positions - the judge is the extracted model / checker, not this"""
    def __init__(self, size): self.size = size; self.bits = set(); self.lw = 0; self.cursor = 0

    def publish(self, lo, hi):
        for n in range(lo, hi + 1): self.bits.add(n % self.size)
        good = self.lw
        while good < hi and ((good + 1) % self.size) in self.bits: good += 1
        if good > self.lw:
            for n in range(self.lw, good + 1): self.bits.discard(n % self.size)
            self.cursor = max(self.cursor, good); self.lw = good


def gen_seqapi(run):
    rng = run.rng
    cases = []
    dist = {"seqapi_kinds": {"single": 0, "multi": 0}, "seqapi_ops": {"next": 0, "publish": 0, "gate": 0}, "seqapi_out_of_order_publishes": 0,
            "seqapi_max_outstanding": 0, "seqapi_slow_path_claims": 0}
    n = 3000 if run.thorough else 400
    # multi-producer "lapping" histories: a small ring, groups of small claims published in a random order, the consumers
    # following closely so that the ring wraps many times (a ready bit left behind by one lap is met again by the next)
    for _ in range(n):
        size = rng.choice([2, 4, 4, 8, 8, 16]); ng = rng.choice([1, 1, 2])
        gating = [0] * ng; nxt = 1; ops = []; sim = MpSim(size)
        for _lap in range(rng.randrange(3, 30 if run.thorough else 16)):
            group = []
            for _k in range(rng.randrange(1, 5)):
                c = rng.choice([1, 1, 1, 2])
                if max(0, (nxt - 1) - min(gating)) + c < size:
                    ops.append((1, c, 0)); group.append((nxt, nxt + c - 1)); nxt += c; dist["seqapi_ops"]["next"] += 1
            rng.shuffle(group)
            keep = group.pop() if (group and rng.random() < 0.3) else None      # sometimes one claim stays outstanding
            if sorted(group) != group: dist["seqapi_out_of_order_publishes"] += 1
            for lo, hi in group:
                ops.append((2, lo, hi)); sim.publish(lo, hi); dist["seqapi_ops"]["publish"] += 1
            for i in range(ng):
                if rng.random() < 0.8 and sim.cursor > gating[i]:
                    gating[i] = sim.cursor; ops.append((3, i, sim.cursor)); dist["seqapi_ops"]["gate"] += 1
            if keep:
                # the held-back claim is published last, after the consumers moved
                ops.append((2, keep[0], keep[1])); sim.publish(keep[0], keep[1]); dist["seqapi_ops"]["publish"] += 1
        if ops:
            dist["seqapi_kinds"]["multi"] += 1; dist["seqapi_lapping_histories"] = dist.get("seqapi_lapping_histories", 0) + 1
            cases.append(Case("seqapi", [1, size, ng], ops, {"kind": "seqapi-lapping"}))
    for _ in range(n):
        kind = rng.randrange(2)
        size = rng.choice([2, 4, 8, 8, 16, 64, 128]) if kind else rng.choice([1, 2, 4, 8, 8, 16, 64, 128, 3, 5, 6, 7, 12])    # the single producer has no mask: any size
        ng = rng.choice([0, 1, 1, 2, 3])
        gating = [0] * ng
        out = []                       # outstanding claims (lo, hi) in claim order
        nxt = 1 if kind else 0         # next sequence to be claimed
        sim = MpSim(size) if kind else None; sp_cursor = 0     # where the real cursor is (consumers never pass it)
        cached = 0
        ops = []
        L = rng.randrange(3, 80 if run.thorough else 40)
        for _ in range(L):
            r = rng.random()
            ming = min(gating) if gating else 0
            if r < 0.45:
                c = rng.choice([1, 1, 2, 3, 4, rng.randrange(1, size + 1)])
                if kind == 0:
                    ok = nxt + c - 1 <= ming + size
                else:
                    ok = max(0, (nxt - 1) - ming) + c < size
                if ok:
                    if kind == 0 and cached + size < nxt + c - 1:
                        dist["seqapi_slow_path_claims"] += 1; cached = ming
                    ops.append((1, c, 0)); out.append((nxt, nxt + c - 1)); nxt += c
                    dist["seqapi_ops"]["next"] += 1
                    dist["seqapi_max_outstanding"] = max(dist["seqapi_max_outstanding"], len(out))
                    continue
            if r < 0.8 and out:
                i = 0 if (kind == 0 or rng.random() < 0.6) else rng.randrange(len(out))
                if i: dist["seqapi_out_of_order_publishes"] += 1
                lo, hi = out.pop(i)
                ops.append((2, lo, hi)); dist["seqapi_ops"]["publish"] += 1
                if kind: sim.publish(lo, hi)
                else: sp_cursor = hi
                continue
            if ng:
                i = rng.randrange(ng)
                top = max(gating[i], sim.cursor if kind else sp_cursor)
                gating[i] = rng.randrange(gating[i], top + 1)
                ops.append((3, i, gating[i])); dist["seqapi_ops"]["gate"] += 1
        if not ops: continue
        dist["seqapi_kinds"]["multi" if kind else "single"] += 1
        cases.append(Case("seqapi", [kind, size, ng], ops, {"kind": "seqapi"}))
    return cases, dist


def seqapi_phase(run):
    b, log = cargo_build("ds")
    if not b:
        fatal(run, "cargo build of harness/ds against /repo failed", log)
    cases, dist = gen_seqapi(run)

    def oracle(case, impl, spec):
        # malformed histories (only the shrinker produces them: a publish of a range that is not outstanding, a claim that
        # must block and is therefore not issued) and histories outside the discipline of the theorems (8: a consumer past
        # the cursor, a single producer publishing out of order) are not judged
        if spec in ("checker:6", "checker:8") or impl.endswith("-777"):
            dist["seqapi_not_judged_outside_discipline"] = dist.get("seqapi_not_judged_outside_discipline", 0) + 1
            return None
        return None if spec == "checker:0" else f"the C14 property checker (SeqApi.check) rejected the observed history: verdict {spec} (1 claim not contiguous, 2 wrong length, 3 cursor decreased, 4 cursor past an unpublished sequence, 5 all published but cursor below the highest claim, 6/7 malformed)"

    def known(case, impl, model, spec):
        # D8: multi-producer, a range published before an earlier one is stranded -> cursor below the highest claim
        if case.prefix[0] == 1 and spec == "checker:5":
            return (KF_D8, KNOWN_TEXT[KF_D8])
        return None
    d = Differential(run, {"release": b}, lambda c: "seqapi_model_entry", None, oracle=oracle, known=known, isolated=False,
                     check_entry=lambda c: "seqapi_check_entry", nontrivial=lambda c: sum(1 for o in c.ops if o[0] == 1) >= 2, max_reports=1)
    B = 400
    d.shrink_budget_s = 20
    d.process(cases[:30])              # a first small batch: a mutant that blocks claims is found here without paying for hundreds of blocked calls
    B = 200
    for i in range(30, len(cases), B):
        if d.real >= 1: break
        d.process(cases[i:i + B])
        if d.real >= 1: break          # violations found and reported: no need to wade through the rest (a blocking mutant costs seconds per case)
    d.finish()
    # BACK PRESSURE PROBES: a claim that must block by the capacity rule is issued anyway; it must not return (the harness answers
    # -888 after 1.5 s). Sequencers without any gating sequence included (then the minimum is 0).
    probes = []
    for kind, size, ng in ((1, 4, 0), (1, 8, 1), (0, 4, 1), (1, 2, 2), (0, 6, 1)) if not run.thorough else ((1, 4, 0), (1, 8, 1), (0, 4, 1), (1, 2, 2), (0, 6, 1), (0, 8, 0), (1, 16, 0), (0, 2, 1), (1, 64, 1), (0, 3, 0), (0, 12, 2), (0, 5, 1)):
        ops = []
        if kind == 1:
            # multi: claims of one until size - 1 are outstanding (the most the rule allows), some published out of order, then one more
            for q in range(1, size): ops += [1, 1, 0]
            for q in range(size - 1, 0, -1):
                if q % 2 == 0: ops += [2, q, q]
            ops += [4, 1, 0]
        else:
            # single: with the gating cursor at 0 a claim may end at `size`; the next one must wait
            ops += [1, size, 0, 2, 0, size - 1, 4, 2, 0]
        probes.append(f"seqapi {kind} {size} {ng} " + fmt(ops))
    n_blocked = 0
    for ln in probes:
        rc, outs, err = run_lines(b, [ln], line_timeout=15)
        run.cov["evaluations"] += 1
        got = outs[0].strip() if outs else "<no answer>"
        if got == "-888":
            n_blocked += 1; continue
        run.violation({"kind": "property-oracle-failed-on-implementation", "what": "a claim that must wait for capacity (ring full by the documented rule) RETURNED; sequences handed out beyond "
                       "the capacity alias slots and ready bits of sequences that are still outstanding", "harness_line": ln, "expected": "-888 (the call does not return)", "got": got,
                       "probe": True, "rerun": "cd /verif && python3 bin/check.py C14 --replay <this file>"})
        break
    dist["seqapi_back_pressure_probes"] = {"issued": len(probes), "blocked_as_required": n_blocked}
    if not run.violations:
        prodwrite_phase(run, b, dist)
    if not run.violations:
        clone_phase(run, b, dist)
    return dist


def clone_phase(run, b, dist):
    """claims through CLONES of one multi-producer sequencer (harness/ds family seqclone; each claim is published at once): the ranges
    must be pairwise disjoint and contiguous in claim order and the cursor must follow them. Claims that all go through ONE clone are
    the control; claims through DIFFERENT clones overlapping is the listed finding D13."""
    rng = run.rng
    lines = []
    for _ in range(12 if run.thorough else 4):
        nc = rng.choice([1, 2, 2, 3]); size = rng.choice([8, 16, 64])
        ops = []; total = 0
        for _ in range(rng.randrange(2, 6)):
            cnt = rng.choice([1, 1, 2, 3])
            if total + cnt >= size: break            # no consumers: a correct sequencer blocks once size - 1 sequences are outstanding
            total += cnt; ops += [rng.randrange(nc), cnt]
        if len(ops) < 4: ops = [0, 1, nc - 1, 1]
        lines.append(f"seqclone {size} {nc} " + fmt(ops))
    lines.append("seqclone 8 2 0 1 1 1")                         # the witness of D13
    rc, outs, err = run_lines(b, lines, line_timeout=15)
    n_ok = 0; n_known = 0
    for k, ln in enumerate(lines):
        run.cov["evaluations"] += 1
        o = outs[k] if k < len(outs) else "<no answer>"
        toks = [int(x) for x in ln.split()[1:]]; nc = toks[1]; ops = [(toks[2 + 2 * i], toks[3 + 2 * i]) for i in range((len(toks) - 2) // 2)]
        try:
            t = [int(x) for x in o.split()]
            assert len(t) == 3 * len(ops)
        except (ValueError, AssertionError):
            t = None
        why = None; nxt = 1; cross = False; last_clone = {}
        if t is None: why = f"unparsable answer {o[:80]!r}"
        else:
            for i, (cl, cnt) in enumerate(ops):
                s_, e_, cur = t[3 * i:3 * i + 3]
                if (s_, e_) != (nxt, nxt + cnt - 1) or cur != nxt + cnt - 1:
                    why = f"claim {i} of {cnt} through clone {cl} returned ({s_}, {e_}) with cursor {cur} afterwards; the claims so far cover 1..{nxt - 1}, so it must be ({nxt}, {nxt + cnt - 1}) and the cursor {nxt + cnt - 1}"
                    cross = any(c2 != cl for (c2, _) in ops[:i])
                    break
                nxt += cnt
        if why is None:
            n_ok += 1; continue
        if cross and listed_open("C14", KF_D13):
            run.known(KF_D13, KNOWN_TEXT[KF_D13]); n_known += 1; continue
        run.violation({"kind": "property-oracle-failed-on-implementation", "why": why, "harness_line": ln, "got": o, "clones": True,
                       "rerun": "cd /verif && python3 bin/check.py C14 --replay <this file>"})
        break
    dist["sequencer_clone_histories"] = {"issued": len(lines), "disjoint_as_required": n_ok, "known_finding_D13": n_known}


def gen_prodwrite(run):
    """Producer::write histories (harness/ds family prodwrite): every claim is published at once by the same call, so after each
    write the cursor must be the highest claimed sequence; empty batches on the multi-producer sequencer included."""
    rng = run.rng; cases = []
    dist = {"prodwrite_histories": 0, "prodwrite_empty_batches": 0, "prodwrite_non_power_of_two_rings": 0}
    for _ in range(300 if run.thorough else 60):
        kind = rng.randrange(2)
        size = rng.choice([2, 4, 8, 16, 64]) if kind else rng.choice([1, 2, 3, 4, 5, 6, 7, 8, 12, 16])
        if size & (size - 1): dist["prodwrite_non_power_of_two_rings"] += 1
        ng = rng.choice([0, 1, 1, 2])
        gating = [0] * ng; nxt = 1 if kind else 0; ops = []
        for _ in range(rng.randrange(2, 14)):
            ming = min(gating) if gating else 0
            c = rng.choice([1, 1, 2, 3, rng.randrange(1, size + 1)])
            if kind and rng.random() < 0.25: c = 0; 
            ok = (nxt + c - 1 <= ming + size and c >= 1) if kind == 0 else (max(0, (nxt - 1) - ming) + c < size)
            if ok:
                if c == 0: dist["prodwrite_empty_batches"] += 1
                ops += [(1, c, 0), (2, nxt, nxt + c - 1)]; nxt += c
            if ng and rng.random() < 0.6:
                i = rng.randrange(ng); gating[i] = rng.randrange(gating[i], max(gating[i], nxt - 1) + 1); ops.append((3, i, gating[i]))
        if not ops: continue
        dist["prodwrite_histories"] += 1
        cases.append(Case("seqapi", [kind, size, ng], ops, {"kind": "prodwrite"}))
    return cases, dist


def prodwrite_oracle(case, impl, spec):
    """independent of the model: every claim is published before the next one is made, so (property text) the ranges are contiguous, of
    the requested length, and after every write the cursor equals the highest claimed sequence and never moved past it meanwhile"""
    if impl.endswith("-777") or impl.strip() in ("-888", "-999"):
        return None if impl.endswith("-777") else f"the write did not return / panicked: {impl}"
    try:
        t = [int(x) for x in impl.split()]
    except ValueError:
        return f"unparsable output {impl[:80]!r}"
    if -555 in t or -556 in t:
        return "Producer::write did not pass every item to the closure exactly once at consecutive sequences (or an item is not readable through the data provider at its sequence)"
    kind = case.prefix[0]; nxt = 1 if kind else 0; p = 0; cur = 0; want = 0
    try:
        for o in case.ops:
            if o[0] == 1: want = o[1]; continue
            if o[0] == 2:
                s, e, inside, after = t[p:p + 4]; p += 4
                if s != nxt or e != nxt + want - 1:
                    return f"a write of {want} items was given the range ({s}, {e}); the next unclaimed sequence was {nxt}"
                if inside != cur:
                    return f"the cursor read {inside} while the claim ({s}, {e}) was still being filled (before: {cur}): it moved although nothing new had been published"
                nxt += want
                if after != nxt - 1 and not (kind == 0 and nxt == 0):
                    return f"after a write of {want} items ending at {nxt - 1} the cursor is {after}; everything claimed has been published, so it must be {nxt - 1}"
                cur = after
            else:
                cur2 = t[p]; p += 1
                if cur2 != cur: return f"the cursor changed from {cur} to {cur2} when a consumer cursor was set"
    except (IndexError, ValueError):
        return None
    return None


def prodwrite_phase(run, b, dist):
    cases, d2 = gen_prodwrite(run); dist.update(d2)

    def oracle(case, impl, spec):
        why = prodwrite_oracle(case, impl, spec)
        if why: return why
        if spec in ("checker:6", "checker:8") or impl.endswith("-777"): return None
        return None if spec == "checker:0" else f"the C14 property checker (SeqApi.check) rejected the observed history: verdict {spec}"
    d = Differential(run, {"release": b}, lambda c: "seqapi_model_entry", None, oracle=oracle, harness_head=lambda c: "prodwrite",
                     check_entry=lambda c: "seqapi_check_entry", nontrivial=lambda c: sum(1 for o in c.ops if o[0] == 1) >= 2, max_reports=1)
    d.shrink_budget_s = 20
    d.process(cases)
    d.finish()


def main():
    run_ring_property("C14", PROPS, gen_multi, RULE, extra_phase=seqapi_phase,
                      extra_trusted=["harness/ds family seqapi: Sequencer::next / publish / get_cursor and AtomicSequenceOrdered::set called directly, one thread, plain (unhooked) build"])


_replay_ring = replay_ring("C14")


def replay(path):
    import json
    d = json.load(open(path))
    if d.get("clones"):
        b, log = cargo_build("ds")
        rc, outs, err = run_lines(b, [d["harness_line"]], line_timeout=15)
        got = outs[0].strip() if outs else "<no answer>"
        print("stored :", d["got"]); print("now    :", got); print(d["why"])
        toks = got.split(); bad = False; nxt = 1
        ops = d["harness_line"].split()[3:]
        for i in range(len(ops) // 2):
            cnt = int(ops[2 * i + 1])
            if toks[3 * i:3 * i + 3] != [str(nxt), str(nxt + cnt - 1), str(nxt + cnt - 1)]: bad = True
            nxt += cnt
        print("REPRODUCED" if bad else "not reproduced"); return 1 if bad else 0
    if d.get("probe"):
        run = Run("C14"); b, log = cargo_build("ds")
        rc, outs, err = run_lines(b, [d["harness_line"]], line_timeout=15)
        got = outs[0].strip() if outs else "<no answer>"
        print("expected: -888 (blocked)   got:", got)
        print("REPRODUCED" if got != "-888" else "not reproduced"); return 1 if got != "-888" else 0
    if "harness_line" in d and d["harness_line"].startswith("prodwrite"):
        run = Run("C14"); ensure_driver(); b, log = cargo_build("ds")
        return generic_replay(Differential(run, {"release": b}, lambda c: "seqapi_model_entry", None, check_entry=lambda c: "seqapi_check_entry", harness_head=lambda c: "prodwrite",
                                           oracle=lambda case, impl, spec: prodwrite_oracle(case, impl, spec) or (None if spec in ("checker:0", "checker:6", "checker:8") or impl.endswith("-777") else spec)), path)
    if "harness_line" in d and d["harness_line"].startswith("seqapi"):
        run = Run("C14"); ensure_driver(); b, log = cargo_build("ds")
        return generic_replay(Differential(run, {"release": b}, lambda c: "seqapi_model_entry", None, check_entry=lambda c: "seqapi_check_entry",
                                           oracle=lambda case, impl, spec: None if spec in ("checker:0", "checker:6", "checker:8") or impl.endswith("-777") else spec), path)
    return _replay_ring(path)
