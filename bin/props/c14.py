"""C14 — Sequencers hand out disjoint gap-free ranges; cursor is the published prefix."""
from props.ring_common import *
from props.ring_gens import gen_multi

PROPS = "theories/Props/C14.v"
RULE = ('as C04 with emphasis on the multi producer with 2-3 writer threads, ring sizes 2..128 (bitmap below / at / above one word), small batches. Monitors: every write gets consecutive sequences of the requested length, the successful CASes on the high watermark tile the sequence space in claim order, the cursor never decreases and never covers an unwritten sequence, after all claimants published the cursor equals the highest claimed sequence')


def main():
    run_ring_property("C14", PROPS, gen_multi, RULE)


replay = replay_ring("C14")
