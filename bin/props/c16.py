"""C16 — Adjustable context nodes change all-or-nothing and only to admissible values."""
import json, itertools
from vlib import *
from props.c17 import cells

PROPS = "theories/Props/C16.v"
SHAPES = [(3,1,1,1),(4,1,1,1),(1,4,1,1),(4,2,3,2),(5,3,2,4),(2,2,2,2)]
NK = {0: "data", 1: "time", 2: "space", 3: "space-time"}
NCOORD = {0: 1, 1: 1, 2: 3, 3: 4}


def target_points(nk):
    if nk in (0, 1):
        return [(0, 0, 0, 0)]
    if nk == 2:
        return [(0, 0, k, 0) for k in range(3)]
    return [(0, 0, 0, k) for k in range(4)]


def mag(rng, sign):
    m = rng.choice([1, 1, 2, 5, 17, 1000, rng.randrange(1, 10**6)])
    return 0 if sign == 0 else sign * m


def gen_cases(run):
    rng = run.rng
    cases = []
    dist = {"node_kinds": {}, "ops": {"update": 0, "adjust": 0}, "sign_patterns": 0, "panic_shapes": 0, "grid_kinds": {}}
    reps = 4 if run.thorough else 1
    for nk in range(4):
        k = NCOORD[nk]
        natural = {0: 1, 1: 1, 2: 3, 3: 4}[nk]
        for op in (0, 1):
            for gs in itertools.product((-1, 0, 1), repeat=k):          # signs of the grid values
                for ns in itertools.product((-1, 0, 1), repeat=k):      # signs of the node's values
                    for _ in range(reps):
                        r = rng.random()
                        gk = natural if r < 0.8 else rng.choice([1, 2, 3, 4])
                        shape = rng.choice(SHAPES)
                        node = [mag(rng, s) for s in ns] + [rng.randrange(1, 50) for _ in range(4 - k)]
                        if op == 1 and rng.random() < 0.5:
                            # make old+delta land near zero: equal magnitudes
                            gv = [(-node[i] if gs[i] < 0 else mag(rng, gs[i])) if gs[i] != 0 else 0 for i in range(k)]
                        else:
                            gv = [mag(rng, s) for s in gs]
                        cs = cells(gk, *shape)
                        junk = [(*c, 100000 + 7 * i) for i, c in enumerate(cs)]
                        rng.shuffle(junk)
                        stores = junk[:min(len(junk), 12)]
                        tps = target_points(nk)
                        inb = set(cs)
                        # stores at the cells the code reads (skipped when out of bounds for this shape: expect a panic)
                        for p, v in zip(tps, gv):
                            if tuple(p) in inb:
                                stores.append((*p, v))
                            else:
                                dist["panic_shapes"] += 1
                        cases.append(Case("adjustable", [nk, op, gk, *shape, *node], stores,
                                          {"node": NK[nk], "op": "update" if op == 0 else "adjust", "grid_signs": gs, "node_signs": ns}))
                        dist["node_kinds"][NK[nk]] = dist["node_kinds"].get(NK[nk], 0) + 1
                        dist["ops"]["update" if op == 0 else "adjust"] += 1
                        dist["grid_kinds"][gk] = dist["grid_kinds"].get(gk, 0) + 1
                    dist["sign_patterns"] += 1
    return cases, dist


def builds(run):
    b, log = cargo_build("dc")
    if not b:
        fatal(run, "cargo build of harness/dc against /repo failed", log)
    return {"release": b}


def mk_diff(run, bins):
    return Differential(run, bins, lambda c: "adjustable_model_entry", None, check_entry=lambda c: "adjustable_check_entry",
                        nontrivial=lambda c: True)


def main():
    run = Run("C16")
    run.do_proof(PROPS)
    ok, msg = ensure_driver()
    if not ok:
        fatal(run, "model extraction / driver build", msg)
    bins = builds(run)
    cases, dist = gen_cases(run)
    d = mk_diff(run, bins)
    B = 3000
    for i in range(0, len(cases), B):
        d.process(cases[i:i + B])
    found = d.finish()
    proof_failure_violation(run, found or run.violations)
    run.cov["rule"] = ("exhaustive over node kind x {update, adjust} x sign pattern {-,0,+}^k of the grid values x sign pattern {-,0,+}^k of the node "
                       "(k = 1,1,3,4), magnitudes from a small set plus random, adjust deltas often chosen to land exactly on zero; grid of the natural "
                       "dimension (80%) or another one, 6 shapes (some too small: both sides must panic), every other cell pre-filled with distinct junk so "
                       "that a wrong cell read is visible; oracle = proved checker adj_check applied to the implementation's output. distinct by full input")
    run.cov["distribution"] = dist
    run.cov["samples"] = [cases[0].to_json(), cases[-1].to_json()]
    run.cov["exhaustive"] = True
    run.finish(extra_trusted=["machine integers modelled as Z: the theorems are for values whose sums fit the machine type (i64 in the harness)"],
               assumptions=["values whose sums do not overflow", "'a time is negative' is read as: a replacement time (update) is negative; for adjust the stated condition is 'an adjusted value would be negative'"])


def replay(path):
    run = Run("C16"); ensure_driver(); bins = builds(run)
    return generic_replay(mk_diff(run, bins), path)
