"""C16 — Adjustable context nodes change all-or-nothing and only to admissible values."""
import json, itertools
from vlib import *
from props.c17 import cells

PROPS = "theories/Props/C16.v"
SHAPES = [(3,1,1,1),(4,1,1,1),(1,4,1,1),(4,2,3,2),(5,3,2,4),(2,2,2,2)]
NK = {0: "data", 1: "time", 2: "space", 3: "space-time"}
NCOORD = {0: 1, 1: 1, 2: 3, 3: 4}


def target_points(nk):
    if nk in (0, 1):
        return [(0, 0, 0, 0)]
    if nk == 2:
        return [(0, 0, k, 0) for k in range(3)]
    return [(0, 0, 0, k) for k in range(4)]


def mag(rng, sign):
    m = rng.choice([1, 1, 2, 5, 17, 1000, rng.randrange(1, 10**6)])
    return 0 if sign == 0 else sign * m


def gen_cases(run):
    rng = run.rng
    cases = []
    dist = {"node_kinds": {}, "ops": {"update": 0, "adjust": 0}, "sign_patterns": 0, "panic_shapes": 0, "grid_kinds": {}}
    reps = 4 if run.thorough else 1
    for nk in range(4):
        k = NCOORD[nk]
        natural = {0: 1, 1: 1, 2: 3, 3: 4}[nk]
        for op in (0, 1):
            for gs in itertools.product((-1, 0, 1), repeat=k):          # signs of the grid values
                for ns in itertools.product((-1, 0, 1), repeat=k):      # signs of the node's values
                    for _ in range(reps):
                        r = rng.random()
                        gk = natural if r < 0.8 else rng.choice([1, 2, 3, 4])
                        shape = rng.choice(SHAPES)
                        node = [mag(rng, s) for s in ns] + [rng.randrange(1, 50) for _ in range(4 - k)]
                        if op == 1 and rng.random() < 0.5:
                            # make old+delta land near zero: equal magnitudes
                            gv = [(-node[i] if gs[i] < 0 else mag(rng, gs[i])) if gs[i] != 0 else 0 for i in range(k)]
                        else:
                            gv = [mag(rng, s) for s in gs]
                        cs = cells(gk, *shape)
                        junk = [(*c, 100000 + 7 * i) for i, c in enumerate(cs)]
                        rng.shuffle(junk)
                        stores = junk[:min(len(junk), 12)]
                        tps = target_points(nk)
                        inb = set(cs)
                        # stores at the cells the code reads (skipped when out of bounds for this shape: expect a panic)
                        for p, v in zip(tps, gv):
                            if tuple(p) in inb:
                                stores.append((*p, v))
                            else:
                                dist["panic_shapes"] += 1
                        cases.append(Case("adjustable", [nk, op, gk, *shape, *node], stores,
                                          {"node": NK[nk], "op": "update" if op == 0 else "adjust", "grid_signs": gs, "node_signs": ns}))
                        dist["node_kinds"][NK[nk]] = dist["node_kinds"].get(NK[nk], 0) + 1
                        dist["ops"]["update" if op == 0 else "adjust"] += 1
                        dist["grid_kinds"][gk] = dist["grid_kinds"].get(gk, 0) + 1
                    dist["sign_patterns"] += 1
    return cases, dist


def builds(run):
    b, log = cargo_build("dc")
    if not b:
        fatal(run, "cargo build of harness/dc against /repo failed", log)
    return {"release": b}


def mk_diff(run, bins):
    return Differential(run, bins, lambda c: "adjustable_model_entry", None, check_entry=lambda c: "adjustable_check_entry",
                        nontrivial=lambda c: True)


KF_D11 = "C16-D11-adjust-overflow-wraps"
I64_MIN, I64_MAX = -2**63, 2**63 - 1
EDGE = [I64_MIN, I64_MIN + 1, I64_MIN + 4, -2**62, -2**62 - 1, 2**62, 2**62 + 1, I64_MAX - 4, I64_MAX - 1, I64_MAX, -1, 1, 5, -5, 0]


def gen_edge_cases(run):
    """node values and grid values at the edge of i64: sums that leave the type's range, and sums that just fit"""
    rng = run.rng; cases = []
    n = 1600 if run.thorough else 260
    for _ in range(n):
        nk = rng.randrange(4); k = NCOORD[nk]; op = rng.choice([1, 1, 1, 0])
        natural = {0: 1, 1: 1, 2: 3, 3: 4}[nk]
        shape = rng.choice([sh for sh in SHAPES if all(tuple(p) in set(cells(natural, *sh)) for p in target_points(nk))])
        node = [rng.choice(EDGE) if rng.random() < 0.7 else mag(rng, rng.choice([-1, 1])) for _ in range(k)] + [rng.randrange(1, 50) for _ in range(4 - k)]
        gv = [rng.choice(EDGE) if rng.random() < 0.7 else mag(rng, rng.choice([-1, 1])) for _ in range(k)]
        stores = [(*pt, v) for pt, v in zip(target_points(nk), gv)]
        sums = [node[i] + gv[i] for i in range(k)]
        cases.append(Case("adjustable", [nk, op, natural, *shape, *node], stores,
                          {"node": NK[nk], "op": "update" if op == 0 else "adjust", "edge": True,
                           "overflows": bool(op == 1 and any(not (I64_MIN <= x <= I64_MAX) for x in sums))}))
    return cases


def known_d11(case, impl, model, spec):
    # the implementation does what the committed release model (every sum wrapped modulo 2^64) does, the operation is an adjust and
    # at least one mathematical sum old + delta lies outside i64
    if case.meta.get("overflows"):
        return (KF_D11, "adjust adds with the wrapping machine + of a release build: when old + delta leaves the range of the element type the wrapped value is "
                        "tested instead (witness: data node -5 adjusted by -(2^63-1) succeeds and holds 2^63-4; debug builds panic instead)")
    return None


def edge_phase(run, bins):
    cases = gen_edge_cases(run)
    d = Differential(run, bins, lambda c: "adjustable_wrap_entry", None, check_entry=lambda c: "adjustable_check_entry",
                     known=known_d11, nontrivial=lambda c: True)
    d.process(cases)
    found = d.finish()
    run.cov["edge_of_the_machine_type"] = {"cases": len(cases), "with_a_sum_outside_i64": sum(1 for c in cases if c.meta["overflows"]),
                                           "model": "Adjustable/Overflow.v adjust_w (sums wrapped modulo 2^64), theorem adjust_w_in_range"}
    return found


def main():
    run = Run("C16")
    run.do_proof(PROPS)
    ok, msg = ensure_driver()
    if not ok:
        fatal(run, "model extraction / driver build", msg)
    bins = builds(run)
    cases, dist = gen_cases(run)
    d = mk_diff(run, bins)
    B = 3000
    for i in range(0, len(cases), B):
        d.process(cases[i:i + B])
    found = d.finish()
    found = edge_phase(run, bins) or found
    proof_failure_violation(run, found or run.violations)
    run.cov["rule"] = ("exhaustive over node kind x {update, adjust} x sign pattern {-,0,+}^k of the grid values x sign pattern {-,0,+}^k of the node "
                       "(k = 1,1,3,4), magnitudes from a small set plus random, adjust deltas often chosen to land exactly on zero; grid of the natural "
                       "dimension (80%) or another one, 6 shapes (some too small: both sides must panic), every other cell pre-filled with distinct junk so "
                       "that a wrong cell read is visible; oracle = proved checker adj_check applied to the implementation's output. distinct by full input")
    run.cov["distribution"] = dist
    run.cov["samples"] = [cases[0].to_json(), cases[-1].to_json()]
    run.cov["exhaustive"] = True
    run.finish(extra_trusted=["machine integers modelled as Z: the property theorems are for values whose sums fit the machine type (i64 in the harness); the release build's wrapping "
                              "addition is modelled in Adjustable/Overflow.v (adjust_w), proved equal to the unbounded model when all sums fit, and compared with the implementation on "
                              "values at the edge of i64; outside the range the property fails: known finding D11"],
               assumptions=["the property theorems assume sums that do not overflow (outside: finding D11)", "'a time is negative' is read as: a replacement time (update) is negative; for adjust the stated condition is 'an adjusted value would be negative'"])


def replay(path):
    run = Run("C16"); ensure_driver(); bins = builds(run)
    dj = json.load(open(path))
    if (dj.get("case") or {}).get("meta", {}).get("edge"):
        return generic_replay(Differential(run, bins, lambda c: "adjustable_wrap_entry", None, check_entry=lambda c: "adjustable_check_entry", known=known_d11), path)
    return generic_replay(mk_diff(run, bins), path)
