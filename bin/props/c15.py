"""C15 — UltraGraph shortest path is a real path of minimum total weight."""
import json
from vlib import *
from props.c08 import Alloc

PROPS = "theories/Props/C15.v"


def gen_graph_history(rng, B, thorough):
    """build/removal history producing a weighted digraph with cycles, zero weights and ties"""
    al = Alloc(); ops = []; edges = set()
    n_nodes = rng.randrange(1, B - 1)
    for i in range(n_nodes):
        ops.append((rng.choice([0, 0, 0, 1]), 100 + i, 0, 0)); al.add()
    wset = rng.choice([[0, 1, 1, 2, 3], [1, 1, 1, 2, 2, 5], [0, 0, 1, 7, 10], [1, 2, 3, 4, 5, 6, 7, 8, 9],
                       [1, 3, 2**32, 2**32 + 5, 2**33, 2**32 - 1], [7, 2**20, 2**40, 2**40 + 1, 2**31, 2**52],      # weights are u64: beyond 32 bits too
                       [2**63, 2**63, 2**63 - 1, 2**64 - 1, 2**64 - 2, 1, 2**62], [2**64 - 1, 2**64 - 1, 2**63 + 1, 5, 0]])      # path SUMS beyond u64 (defect D12, fixed: cost accumulated in u128)
    for _ in range(rng.randrange(0, 3 * n_nodes + 3)):
        r = rng.random()
        live = sorted(al.live)
        if r < 0.72 and live:
            a, b = rng.choice(live), rng.choice(live)
            if rng.random() < 0.08: b = rng.randrange(0, B)
            if rng.random() < 0.25:
                ops.append((3, a, b, 0))
            else:
                ops.append((4, a, b, rng.choice(wset)))
            edges.add((a, b))
        elif r < 0.80 and edges:
            a, b = rng.choice(sorted(edges)); ops.append((5, a, b, 0)); edges.discard((a, b))
        elif r < 0.88 and live:
            i = rng.choice(live); ops.append((2, i, 0, 0)); al.remove(i); edges = {e for e in edges if i not in e}
        elif r < 0.97 and len(al.live) < B - 2:
            ops.append((rng.choice([0, 0, 1]), 200 + len(ops), 0, 0)); al.add()      # also a root added AFTER removals
        elif r > 0.995:
            ops.append((6, 0, 0, 0)); al.clear(); edges = set()
    return ops


def gen_cases(run):
    rng = run.rng; cases = []
    dist = {"graphs": 0, "queries": 0, "with_removals": 0, "with_zero_weight": 0, "edge_ops": 0}
    n = 6000 if run.thorough else 700
    for _ in range(n):
        B = rng.choice([3, 4, 5, 6, 7, 8])
        ops = gen_graph_history(rng, B, run.thorough)
        cases.append(Case("spath", [B], ops, {"cap": rng.choice([0, 2, 8, 9001, 9002])}))
        dist["graphs"] += 1; dist["queries"] += B * B
        if any(o[0] in (2, 5, 6) for o in ops): dist["with_removals"] += 1
        if any(o[0] == 3 or (o[0] == 4 and o[3] == 0) for o in ops): dist["with_zero_weight"] += 1
        dist["edge_ops"] += sum(1 for o in ops if o[0] in (3, 4))
    return cases, dist


def builds(run):
    b, log = cargo_build("dc")
    if not b:
        fatal(run, "cargo build of harness/dc against /repo failed", log)
    return {"release": b}


def mk_diff(run, bins):
    return Differential(run, bins, None, None, check_entry=lambda c: "spath_check_entry",
                        harness_head=lambda c: f"spath_{c.meta.get('cap', 0)}",
                        nontrivial=lambda c: sum(1 for o in c.ops if o[0] in (3, 4)) >= 2)


def main():
    run = Run("C15")
    run.level = "translation_validation"
    run.do_proof(PROPS)
    ok, msg = ensure_driver()
    if not ok:
        fatal(run, "model extraction / driver build", msg)
    bins = builds(run)
    cases, dist = gen_cases(run)
    d = mk_diff(run, bins)
    B = 500
    for i in range(0, len(cases), B):
        d.process(cases[i:i + B])
    found = d.finish()
    proof_failure_violation(run, found or run.violations)
    run.cov["rule"] = ("weighted digraphs reached through build/removal histories (add_node, add_root_node, add_edge = weight 0, add_edge_with_weight from small weight sets "
                       "that force ties, remove_edge, remove_node, clear), cycles and self loops included; EVERY ordered pair (s,t) of the index window is queried (incl. s=t, "
                       "absent and removed indices); each answer is validated by the proved checker check_answer on the specification graph of the run. "
                       "Non-trivial = at least two edges")
    run.cov["distribution"] = dist
    run.cov["samples"] = [cases[0].to_json(), cases[-1].to_json()]
    run.cov["programs"] = dist["queries"]
    run.notes.append("level: the unbounded theorems are the soundness of the checker (any accepted answer is a real minimum-weight path / a real unreachability); "
                     "petgraph's astar itself is covered per explored input only (translation validation)")
    run.finish(extra_trusted=["petgraph::algo::astar is NOT modelled: each of its answers is validated by the proved checker (translation validation)",
                              "the specification graph the checker runs on is rebuilt from the op history through C08's spec step (sstep) with the implementation's return values"],
               assumptions=["path sums may exceed u64 (weights up to 2^64-1 are generated): the implementation accumulates the cost in u128 since the fix of D12; the model computes in N", "the reference distances (Bellman-Ford, |nodes| rounds) are closed under relaxation: theorem C15_reference_distances_are_closed (Graph/BellmanFord.v); the checker is complete as well as sound"])


def replay(path):
    run = Run("C15"); ensure_driver(); bins = builds(run)
    return generic_replay(mk_diff(run, bins), path)
