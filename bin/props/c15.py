"""C15 — UltraGraph shortest path is a real path of minimum total weight."""
import json
from vlib import *
from props.c08 import Alloc

PROPS = "theories/Props/C15.v"


def gen_graph_history(rng, B, thorough):
    """build/removal history producing a weighted digraph with cycles, zero weights and ties"""
    al = Alloc(); ops = []; edges = set()
    n_nodes = rng.randrange(1, B - 1)
    for i in range(n_nodes):
        ops.append((rng.choice([0, 0, 0, 1]), 100 + i, 0, 0)); al.add()
    wset = rng.choice([[0, 1, 1, 2, 3], [1, 1, 1, 2, 2, 5], [0, 0, 1, 7, 10], [1, 2, 3, 4, 5, 6, 7, 8, 9],
                       [1, 3, 2**32, 2**32 + 5, 2**33, 2**32 - 1], [7, 2**20, 2**40, 2**40 + 1, 2**31, 2**52],      # weights are u64: beyond 32 bits too
                       [2**63, 2**63, 2**63 - 1, 2**64 - 1, 2**64 - 2, 1, 2**62], [2**64 - 1, 2**64 - 1, 2**63 + 1, 5, 0]])      # path SUMS beyond u64 (defect D12, fixed: cost accumulated in u128)
    for _ in range(rng.randrange(0, 3 * n_nodes + 3)):
        r = rng.random()
        live = sorted(al.live)
        if r < 0.72 and live:
            a, b = rng.choice(live), rng.choice(live)
            if rng.random() < 0.08: b = rng.randrange(0, B)
            if rng.random() < 0.25:
                ops.append((3, a, b, 0))
            else:
                ops.append((4, a, b, rng.choice(wset)))
            edges.add((a, b))
        elif r < 0.80 and edges:
            a, b = rng.choice(sorted(edges)); ops.append((5, a, b, 0)); edges.discard((a, b))
        elif r < 0.88 and live:
            i = rng.choice(live); ops.append((2, i, 0, 0)); al.remove(i); edges = {e for e in edges if i not in e}
        elif r < 0.97 and len(al.live) < B - 2:
            ops.append((rng.choice([0, 0, 1]), 200 + len(ops), 0, 0)); al.add()      # also a root added AFTER removals
        elif r > 0.995:
            ops.append((6, 0, 0, 0)); al.clear(); edges = set()
    return ops


def gen_cases(run):
    rng = run.rng; cases = []
    dist = {"graphs": 0, "queries": 0, "with_removals": 0, "with_zero_weight": 0, "edge_ops": 0}
    n = 6000 if run.thorough else 700
    for _ in range(n):
        B = rng.choice([3, 4, 5, 6, 7, 8])
        ops = gen_graph_history(rng, B, run.thorough)
        cases.append(Case("spath", [B], ops, {"cap": rng.choice([0, 2, 8, 9001, 9002])}))
        dist["graphs"] += 1; dist["queries"] += B * B
        if any(o[0] in (2, 5, 6) for o in ops): dist["with_removals"] += 1
        if any(o[0] == 3 or (o[0] == 4 and o[3] == 0) for o in ops): dist["with_zero_weight"] += 1
        dist["edge_ops"] += sum(1 for o in ops if o[0] in (3, 4))
    return cases, dist


def builds(run):
    b, log = cargo_build("dc")
    if not b:
        fatal(run, "cargo build of harness/dc against /repo failed", log)
    return {"release": b}


def mk_diff(run, bins):
    return Differential(run, bins, None, None, check_entry=lambda c: "spath_check_entry",
                        harness_head=lambda c: f"spath_{c.meta.get('cap', 0)}",
                        nontrivial=lambda c: sum(1 for o in c.ops if o[0] in (3, 4)) >= 2)


def main():
    run = Run("C15")
    run.level = "translation_validation"
    run.do_proof(PROPS)
    ok, msg = ensure_driver()
    if not ok:
        fatal(run, "model extraction / driver build", msg)
    bins = builds(run)
    cases, dist = gen_cases(run)
    d = mk_diff(run, bins)
    B = 500
    for i in range(0, len(cases), B):
        d.process(cases[i:i + B])
    found = d.finish()
    long_phase(run, bins)
    proof_failure_violation(run, found or run.violations)
    run.cov["rule"] = ("weighted digraphs reached through build/removal histories (add_node, add_root_node, add_edge = weight 0, add_edge_with_weight from small weight sets "
                       "that force ties, remove_edge, remove_node, clear), cycles and self loops included; EVERY ordered pair (s,t) of the index window is queried (incl. s=t, "
                       "absent and removed indices); each answer is validated by the proved checker check_answer on the specification graph of the run. "
                       "Non-trivial = at least two edges")
    run.cov["distribution"] = dist
    run.cov["samples"] = [cases[0].to_json(), cases[-1].to_json()]
    run.cov["programs"] = dist["queries"]
    run.notes.append("level: the unbounded theorems are the soundness of the checker (any accepted answer is a real minimum-weight path / a real unreachability); "
                     "petgraph's astar itself is covered per explored input only (translation validation)")
    run.finish(extra_trusted=["petgraph::algo::astar is NOT modelled: each of its answers is validated by the proved checker (translation validation)",
                              "the specification graph the checker runs on is rebuilt from the op history through C08's spec step (sstep) with the implementation's return values"],
               assumptions=["path sums may exceed u64 (weights up to 2^64-1 are generated): the implementation accumulates the cost in u128 since the fix of D12; the model computes in N", "the reference distances (Bellman-Ford, |nodes| rounds) are closed under relaxation: theorem C15_reference_distances_are_closed (Graph/BellmanFord.v); the checker is complete as well as sound"])


def long_phase(run, bins):
    """LONG paths (hundreds of edges), beyond what the extracted checker can label in reasonable time: graphs whose shortest paths are
    known by construction - a chain of light edges beside heavier short-cuts, two parallel chains of different weight - and selected
    queries. Oracle (Python, on the implementation's answer): the answer is a path along inserted edges from s to t and its total
    weight is the optimum known by construction."""
    rng = run.rng
    n_ok = 0; lines = []; specs = []
    for n in ([259, 300, 513, 1030, 2051] if run.thorough else [300, rng.choice([520, 1030])]):
        w_chain = rng.choice([0, 0, 1])
        ops = [(0, 100 + i, 0, 0) for i in range(n)]
        edges = {}
        for i in range(n - 1):
            edges[(i, i + 1)] = w_chain
        # heavier short-cuts: from 0 to the end, and from a middle node to the end
        # the end-to-end short-cut is heavier by exactly 1 (the tightest margin: any cost function that lets the number of edges
        # outweigh one unit of weight on a path this long picks the short-cut)
        sc1 = w_chain * (n - 1) + 1; mid = rng.randrange(1, n - 2)
        sc2 = w_chain * (n - 1 - mid) + rng.choice([1, 3])
        edges[(0, n - 1)] = sc1; edges[(mid, n - 1)] = sc2
        items = list(edges.items()); rng.shuffle(items)
        for (a, b2), w in items:
            ops.append((4, a, b2, w) if w > 0 else (3, a, b2, 0))
        queries = [(0, n - 1), (mid, n - 1), (1, n - 1), (0, mid), (n - 1, 0)]
        opt = {(0, n - 1): w_chain * (n - 1), (mid, n - 1): w_chain * (n - 1 - mid), (1, n - 1): w_chain * (n - 2), (0, mid): w_chain * mid, (n - 1, 0): None}
        lines.append(f"spathq_{rng.choice([0, 8])} {len(ops)} " + fmt([x for o in ops for x in o]) + " " + fmt([x for q in queries for x in q]))
        specs.append((n, edges, queries, opt, len(ops)))
    rc, outs, err = run_lines(bins["release"], lines, line_timeout=120)
    for k, (ln, (n, edges, queries, opt, nops)) in enumerate(zip(lines, specs)):
        run.cov["evaluations"] += 1
        o = outs[k] if k < len(outs) else "<no answer>"
        why = None
        try:
            t = [int(x) for x in o.split()]
            p = nops
            for q in queries:
                if t[p] < 0: ans = None; p += 1
                else: ans = t[p + 1:p + 1 + t[p]]; p += 1 + t[p]
                want = opt[q]
                if want is None:
                    if ans is not None: why = f"query {q}: a path {ans[:6]}.. was returned although the target is unreachable"; break
                    continue
                if ans is None: why = f"query {q}: nothing returned although a path of weight {want} exists"; break
                if ans[0] != q[0] or ans[-1] != q[1] or any((a, b2) not in edges for a, b2 in zip(ans, ans[1:])):
                    why = f"query {q}: {ans[:6]}..{ans[-3:]} is not a path along inserted edges from {q[0]} to {q[1]}"; break
                wt = sum(edges[(a, b2)] for a, b2 in zip(ans, ans[1:]))
                if wt != want: why = f"query {q}: returned a path of {len(ans) - 1} edges and total weight {wt}; the minimum (the chain of {n - 1 if q == (0, n - 1) else '..'} light edges) is {want}"; break
        except (ValueError, IndexError):
            why = f"unparsable answer {o[:80]!r}"
        if why is None:
            n_ok += 1; continue
        run.violation({"kind": "property-oracle-failed-on-implementation", "why": why, "harness_line": ln, "long": True, "nodes": n,
                       "rerun": "cd /verif && python3 bin/check.py C15 --replay <this file>"})
        break
    run.cov["long_path_graphs"] = {"graphs": len(lines), "agree": n_ok, "nodes": [sp[0] for sp in specs]}


def replay(path):
    import json as _j
    dj = _j.load(open(path))
    if dj.get("long"):
        run = Run("C15"); bins = builds(run)
        # re-run the line and re-judge: the optimum is recomputed from the line (Dijkstra in Python on the inserted edges)
        toks = [int(x) for x in dj["harness_line"].split()[1:]]
        nops = toks[0]; ops = [toks[1 + 4 * i:5 + 4 * i] for i in range(nops)]; qs = toks[1 + 4 * nops:]
        edges = {}
        for o in ops:
            if o[0] == 4: edges.setdefault((o[1], o[2]), o[3])
            elif o[0] == 3: edges.setdefault((o[1], o[2]), 0)
        import heapq
        def dijkstra(s0, t0):
            dist = {s0: 0}; pq = [(0, s0)]
            adj = {}
            for (a, b2), w in edges.items(): adj.setdefault(a, []).append((b2, w))
            while pq:
                dd, u = heapq.heappop(pq)
                if dd > dist.get(u, 1 << 200): continue
                if u == t0: return dd
                for v, w in adj.get(u, []):
                    if dd + w < dist.get(v, 1 << 200): dist[v] = dd + w; heapq.heappush(pq, (dd + w, v))
            return None
        rc, outs, err = run_lines(bins["release"], [dj["harness_line"]], line_timeout=120)
        t = [int(x) for x in outs[0].split()]; p = nops; bad = False
        for i in range(0, len(qs), 2):
            q = (qs[i], qs[i + 1])
            if t[p] < 0: ans = None; p += 1
            else: ans = t[p + 1:p + 1 + t[p]]; p += 1 + t[p]
            want = dijkstra(*q)
            got = None if ans is None else sum(edges.get((a, b2), 1 << 100) for a, b2 in zip(ans, ans[1:]))
            print("query", q, "minimum", want, "returned weight", got)
            if want != got: bad = True
        print("REPRODUCED" if bad else "not reproduced"); return 1 if bad else 0
    run = Run("C15"); ensure_driver(); bins = builds(run)
    return generic_replay(mk_diff(run, bins), path)
