"""C04 — Ring buffer delivers every published event exactly once, in order, intact."""
from props.ring_common import *
from props.ring_gens import gen_mixed

PROPS = "theories/Props/C04.v"
RULE = ('pipelines built with the public builder: ring sizes 1..128, single / multi producer (1-3 writer threads), spinning / blocking wait (with spurious wake-ups), 1-3 barrier stages of 1-3 handlers, mutable handlers in exclusive stages, events >> capacity (the ring wraps), batch sizes 1..N-1, zero-event pipelines; schedules: seeded random (spin-damped), PCT-like priorities, round-robin with random quantum. Monitors: per handler consecutive sequences from the first, exactly once, payload = written payload transformed by the earlier stages, never before the sequence is completely written and covered by the producer cursor, all published events delivered after drain + join. Non-trivial = more events than slots and more than one thread scheduled')


def main():
    run_ring_property("C04", PROPS, gen_mixed, RULE)


replay = replay_ring("C04")
