"""C08 — UltraGraph behaves as a directed-graph store under any operation sequence."""
import json
from vlib import *

PROPS = "theories/Props/C08.v"
OPN = {0: "add_node", 1: "add_root_node", 2: "remove_node", 3: "add_edge", 4: "add_edge_with_weight", 5: "remove_edge", 6: "clear"}


class Alloc:
    """generator-side guess of the live index set (petgraph's allocator), only used to aim indices"""
    def __init__(self):
        self.ub = 0; self.removed = []; self.live = set()
    def add(self):
        if self.removed:
            i = self.removed.pop()
        else:
            i = self.ub; self.ub += 1
        self.live.add(i); return i
    def remove(self, i):
        if i in self.live:
            self.live.discard(i)
            if self.ub - i == 1: self.ub -= 1
            else: self.removed.append(i)
    def clear(self):
        self.__init__()


def gen_history(rng, B, L, weights):
    al = Alloc()
    ops = []
    val = rng.randrange(1, 1000)
    edges = set()
    for _ in range(L):
        def idx():
            if al.live and rng.random() < 0.8:
                return rng.choice(sorted(al.live))
            return rng.randrange(0, B)
        c = rng.choices([0, 1, 2, 3, 4, 5, 6], weights)[0]
        if c in (0, 1):
            if len(al.live) >= B - 2:
                c = 2
            else:
                val += rng.randrange(1, 5)
                ops.append((c, val, 0, 0)); al.add(); continue
        if c == 2:
            i = idx(); ops.append((2, i, 0, 0)); al.remove(i)
            edges = {e for e in edges if i not in e}
        elif c in (3, 4):
            a, b = idx(), idx()
            if rng.random() < 0.15 and edges:
                a, b = rng.choice(sorted(edges))          # duplicate edge
            ops.append((c, a, b, rng.choice([0, 1, 2, 7, 1000]) if c == 4 else 0))
            if a in al.live and b in al.live: edges.add((a, b))
        elif c == 5:
            if edges and rng.random() < 0.7:
                a, b = rng.choice(sorted(edges))
            else:
                a, b = idx(), idx()
            ops.append((5, a, b, 0)); edges.discard((a, b))
        else:
            ops.append((6, 0, 0, 0)); al.clear(); edges = set()
    return ops


def gen_cases(run):
    rng = run.rng
    cases = []
    dist = {"ops": {v: 0 for v in OPN.values()}, "capacities": {}, "histories": 0, "index_reuse_histories": 0, "growth_histories": 0}
    n = 20000 if run.thorough else 2500
    for k in range(n):
        B = rng.choice([4, 5, 6, 7, 8])
        L = rng.randrange(1, 60 if run.thorough else 36)
        w = rng.choice([[5, 1, 3, 6, 3, 4, 0.3], [4, 1, 1, 8, 4, 2, 0.1], [3, 1, 5, 3, 1, 3, 0.6], [6, 2, 4, 5, 2, 5, 0.2]])
        ops = gen_history(rng, B, L, w)
        cap = rng.choice([0, 1, 2, 8, 8, 9001, 9002])      # 9001 / 9002: the constructors ultragraph::new() and ultragraph::default()
        cases.append(Case("ugraph", [B], ops, {"cap": cap, "cloning": rng.random() < 0.3}))      # cloning: the graph is replaced by its clone before every third op
        dist["capacities"][cap] = dist["capacities"].get(cap, 0) + 1
        adds = sum(1 for o in ops if o[0] in (0, 1)); rems = sum(1 for o in ops if o[0] == 2)
        if rems and adds > rems: dist["index_reuse_histories"] += 1
        if adds > (cap if cap < 9000 else 0): dist["growth_histories"] += 1
        for o in ops: dist["ops"][OPN[o[0]]] += 1
    # MEDIUM graphs: past 64 nodes (a machine word of nodes, several doublings of the adjacency matrix), edges and removals at high
    # indices; the observation window stays small, the sorted node / edge lists and the counts cover the rest. The association-list
    # model is cubic in the size, so only one or two such histories are run.
    for nn, ne in ([(130, 260), (70, 150)] if run.thorough else [(70, 150)]):
        ops = [(rng.choice([0, 0, 0, 1]), 1000 + i, 0, 0) for i in range(nn)]
        for _ in range(ne):
            a, b2 = rng.randrange(nn), rng.randrange(nn)
            ops.append((rng.choice([3, 4, 4]), a, b2, rng.randrange(1, 9)))
        for _ in range(12): ops.append((2, rng.randrange(nn), 0, 0))
        for _ in range(12): ops.append((rng.choice([0, 5, 4]), rng.randrange(nn), rng.randrange(nn), 3))
        cases.append(Case("ugraph", [4], ops, {"cap": rng.choice([0, 8, 9001]), "medium": True}))
        dist["medium_graph_histories"] = dist.get("medium_graph_histories", 0) + 1
    dist["histories"] = len(cases)
    return cases, dist


def builds(run):
    b, log = cargo_build("dc")
    if not b:
        fatal(run, "cargo build of harness/dc against /repo failed", log)
    return {"release": b}


def mk_diff(run, bins):
    return Differential(run, bins, lambda c: "ugraph_model_entry", None, check_entry=lambda c: "ugraph_check_entry",
                        harness_head=lambda c: f"ugraph{'c' if c.meta.get('cloning') else ''}_{c.meta.get('cap', 0)}",
                        nontrivial=lambda c: len(c.ops) >= 4 and any(o[0] in (2, 5) for o in c.ops))


def corpus_cases():
    out = []
    p = os.path.join(VERIF, "corpus", "C08")
    if os.path.isdir(p):
        for f in sorted(os.listdir(p)):
            out.append(Case.from_json(json.load(open(os.path.join(p, f)))))
    return out


def main():
    run = Run("C08")
    run.do_proof(PROPS)
    ok, msg = ensure_driver()
    if not ok:
        fatal(run, "model extraction / driver build", msg)
    bins = builds(run)
    cases, dist = gen_cases(run)
    cases = corpus_cases() + cases
    d = mk_diff(run, bins)
    B = 250
    for i in range(0, len(cases), B):
        d.process(cases[i:i + B])
    found = d.finish()
    from props.bulk_common import bulk_phase
    bulk_phase(run, bins["release"], "C08")
    proof_failure_violation(run, found or run.violations)
    run.cov["rule"] = ("random histories (<= 35 quick / 60 thorough ops) over add_node/add_root_node/remove_node/add_edge/add_edge_with_weight/remove_edge/clear, "
                       "indices aimed at live nodes (80%) or arbitrary, duplicate edges, initial capacities 0/1/2/8 (growth), index reuse after removals; after EVERY op "
                       "the full observation over an index window (contains/get for every index, contains_edge for every pair, counts, sorted node and edge lists, "
                       "outgoing_edges of every index, root accessors, get_last_index) is compared with the model and validated by the proved spec checker. "
                       "Non-trivial = >= 4 ops with at least one removal")
    run.cov["distribution"] = dist
    run.cov["samples"] = [cases[0].to_json(), cases[-1].to_json()]
    run.finish(extra_trusted=["petgraph 0.7.1 MatrixGraph/IdStorage behaviour as modelled in Graph/UltraGraph.v (finite-map adjacency, LIFO id reuse, nb_edges counter)",
                              "AHashMap as association list; hash iteration order removed by sorting on both sides"],
               assumptions=["root accessors: the spec keeps the root pointer of the last add_root_node until clear (remove_node does not reset it), as the code does"])


def replay(path):
    run = Run("C08"); ensure_driver(); bins = builds(run)
    import json as _j
    if _j.load(open(path)).get("bulk"):
        from props.bulk_common import bulk_replay
        return bulk_replay("C08", bins["release"], path)
    return generic_replay(mk_diff(run, bins), path)
