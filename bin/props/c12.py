"""C12 — Reasoning is deterministic and independent of the container holding the items."""
from props.causal_common import *
import props.c18 as c18

PROPS = "theories/Props/C12.v"
CONT = {0: "slice", 1: "Vec", 2: "VecDeque", 3: "BTreeMap", 4: "HashMap"}


def gen_cases(run):
    rng = run.rng; cases = []
    dist = {"item_sets": 0, "containers": {v: 0 for v in CONT.values()}, "repeated_calls": 0, "clone_calls": 0, "graphs": 0}
    n = 1500 if run.thorough else 220
    for _ in range(n):
        # the same causal items in each of the five containers
        g = Gen(rng)
        tree = g.tree(rng.choice([1, 2]), 1)
        # top-level item ids ascending so that the id-sorted view of the HashMap equals the item order
        top, _ = parse_tree(tree, 0)
        ids = sorted(k["id"] for k in top["kids"])
        if len(set(ids)) != len(ids): continue
        q = 3
        for k, kid in enumerate(top["kids"]):
            tree[q + 1] = ids[k] if kid["kind"] != 0 else ids[k]
            sub, q2 = parse_tree(tree, q); q = q2
        base_calls = []
        for _ in range(rng.randrange(1, 4)):
            data = data_for(rng, g, 14, p_true=rng.choice([0.7, 0.95, 1.0]), p_err=rng.choice([0, 0.05]))
            base_calls.append(data)
        for cont in range(5):
            calls = []
            for data in base_calls:
                if cont == 4:
                    calls.append(call(8, 0, 0, None, data))
                else:
                    calls.append(call(4, 0, 0, None, data)); calls.append(call(4, 0, 0, None, data)); dist["repeated_calls"] += 1
                    calls.append(call(5, 0, 0, None, data))
            cases.append(mk_case(list(tree), calls, {"cont": cont, "group": dist["item_sets"]}))
            dist["containers"][CONT[cont]] += 1
        dist["item_sets"] += 1
        # a causal graph: repetition and clone
        g2 = Gen(rng)
        t2 = g2.tree(rng.choice([1, 2]), 2)
        calls = []
        for _ in range(rng.randrange(1, 4)):
            data = data_for(rng, g2, 14, p_true=rng.choice([0.8, 0.97, 1.0]), p_err=rng.choice([0, 0.05]))
            calls += [call(0, 0, 0, None, data), call(7, 0, 0, None, data), call(0, 0, 0, None, data)]
            dist["clone_calls"] += 1; dist["repeated_calls"] += 1
        cases.append(mk_case(t2, calls, {"cont": 1})); dist["graphs"] += 1
    return cases, dist


def cross(run, d, bins, cases):
    """the ordered containers must give IDENTICAL answers for the same items; rebuilding the identical model gives the identical output"""
    groups = {}
    for c in cases:
        gid = c.meta.get("group")
        if gid is not None and c.meta["cont"] in (0, 1, 2, 3): groups.setdefault(gid, []).append(c)
    todo = [c for cs in groups.values() for c in cs]
    impl, model, spec = d.eval_cases(todo)          # second, independent build of every model (determinism)
    outs = {c.key() + (c.meta["cont"],): impl["release"][i] for i, c in enumerate(todo)}
    n_cmp = 0
    for gid, cs in groups.items():
        ref = outs[cs[0].key() + (cs[0].meta["cont"],)]
        for c in cs[1:]:
            n_cmp += 1
            o = outs[c.key() + (c.meta["cont"],)]
            if o != ref:
                run.violation({"kind": "property-oracle-failed-on-implementation", "why": "ordered containers disagree on the same items",
                               "case": c.to_json(), "containers": [cs[0].meta["cont"], c.meta["cont"]], "outputs": [ref, o],
                               "harness_line": c.line("causal_%d" % c.meta["cont"])})
                return
    run.cov["cross_container_comparisons"] = n_cmp
    # assumption / inference / observation collections in all five containers (C18's generator and model)
    cases18, dist18 = c18.gen_cases(run)
    cases18 = cases18[: (6000 if run.thorough else 900)]
    d18 = Differential(run, bins, lambda c: "collections_model_entry", None, check_entry=lambda c: "collections_check_entry",
                       nontrivial=lambda c: c.prefix[2] >= 2)
    for i in range(0, len(cases18), 1000):
        d18.process(cases18[i:i + 1000])
    d18.finish()
    run.cov["collections_cases_over_five_containers"] = len(cases18)


CHECKS = [chk_repeat, chk_recount]
RULE = ("the same causal items (singletons and nested causaloids) loaded into a slice, Vec, VecDeque, BTreeMap (same iteration order) and HashMap; every CausableReasoning method after "
        "reason_all_causes (ordered containers; each call issued twice = repetition, and once through the wrapping causaloid) or after per-item evaluation (HashMap: order-insensitive "
        "answers, filters compared as id-sorted sets); causal graphs: reason_all_causes, the same on a CLONE of the graph, and again; every model is built twice (rebuild determinism) and "
        "the ordered containers are compared pairwise. The assumption / inference / observation collections are compared across the five containers by C18's check, whose cases run "
        "here as well")


def main():
    run = run_property("C12", PROPS, gen_cases, CHECKS, RULE, cross=cross)


replay = mk_replay("C12", CHECKS)
