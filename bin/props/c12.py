"""C12 — Reasoning is deterministic and independent of the container holding the items."""
from props.causal_common import *
import props.c18 as c18

PROPS = "theories/Props/C12.v"
CONT = {0: "slice", 1: "Vec", 2: "VecDeque", 3: "BTreeMap", 4: "HashMap"}


def gen_cases(run):
    rng = run.rng; cases = []
    dist = {"item_sets": 0, "containers": {v: 0 for v in CONT.values()}, "repeated_calls": 0, "clone_calls": 0, "graphs": 0}
    n = 1500 if run.thorough else 220
    for _ in range(n):
        # the same causal items in each of the five containers
        g = Gen(rng)
        tree = g.tree(rng.choice([1, 2]), 1)
        # top-level item ids ascending so that the id-sorted view of the HashMap equals the item order
        top, _ = parse_tree(tree, 0)
        ids = sorted(k["id"] for k in top["kids"])
        if len(set(ids)) != len(ids): continue
        # half of the item sets keep their ids in a NON-ascending order along the collection (then the id-sorted view used for the
        # HashMap is not the item order, so the HashMap is left out): an ordered map must iterate in KEY order, not in id order
        shuffled = rng.random() < 0.5 and len(ids) >= 2
        if shuffled:
            while ids == sorted(ids): rng.shuffle(ids)
            dist["item_sets_with_unsorted_ids"] = dist.get("item_sets_with_unsorted_ids", 0) + 1
        q = 3
        for k, kid in enumerate(top["kids"]):
            tree[q + 1] = ids[k] if kid["kind"] != 0 else ids[k]
            sub, q2 = parse_tree(tree, q); q = q2
        base_calls = []
        for _ in range(rng.randrange(1, 4)):
            data = data_for(rng, g, 14, p_true=rng.choice([0.7, 0.95, 1.0]), p_err=rng.choice([0, 0.05]))
            base_calls.append(data)
        for cont in range(4 if shuffled else 5):
            calls = []
            for data in base_calls:
                if cont == 4:
                    calls.append(call(8, 0, 0, None, data))
                else:
                    calls.append(call(4, 0, 0, None, data)); calls.append(call(4, 0, 0, None, data)); dist["repeated_calls"] += 1
                    calls.append(call(5, 0, 0, None, data))
            cases.append(mk_case(list(tree), calls, {"cont": cont, "group": dist["item_sets"]}))
            dist["containers"][CONT[cont]] += 1
        dist["item_sets"] += 1
        # a causal graph: repetition and clone
        g2 = Gen(rng)
        t2 = g2.tree(rng.choice([1, 2]), 2)
        calls = []
        for _ in range(rng.randrange(1, 4)):
            data = data_for(rng, g2, 14, p_true=rng.choice([0.8, 0.97, 1.0]), p_err=rng.choice([0, 0.05]))
            calls += [call(0, 0, 0, None, data), call(7, 0, 0, None, data), call(0, 0, 0, None, data)]
            dist["clone_calls"] += 1; dist["repeated_calls"] += 1
        cases.append(mk_case(t2, calls, {"cont": 1})); dist["graphs"] += 1
    return cases, dist


def cross(run, d, bins, cases):
    """the ordered containers must give IDENTICAL answers for the same items; rebuilding the identical model gives the identical output"""
    groups = {}
    for c in cases:
        gid = c.meta.get("group")
        if gid is not None and c.meta["cont"] in (0, 1, 2, 3): groups.setdefault(gid, []).append(c)
    todo = [c for cs in groups.values() for c in cs]
    impl, model, spec = d.eval_cases(todo)          # second, independent build of every model (determinism)
    outs = {c.key() + (c.meta["cont"],): impl["release"][i] for i, c in enumerate(todo)}
    n_cmp = 0
    for gid, cs in groups.items():
        ref = outs[cs[0].key() + (cs[0].meta["cont"],)]
        for c in cs[1:]:
            n_cmp += 1
            o = outs[c.key() + (c.meta["cont"],)]
            if o != ref:
                run.violation({"kind": "property-oracle-failed-on-implementation", "why": "ordered containers disagree on the same items",
                               "case": c.to_json(), "containers": [cs[0].meta["cont"], c.meta["cont"]], "outputs": [ref, o],
                               "harness_line": c.line("causal_%d" % c.meta["cont"])})
                return
    run.cov["cross_container_comparisons"] = n_cmp
    # history independence: the verdict of a reasoning call on a USED model equals the verdict of the same call issued alone on
    # a freshly rebuilt identical model ("rebuilding an identical model ... never changes a verdict"; model: run_pure)
    multi = [c for c in cases if len(c.ops) >= 2]
    multi = multi[: (3000 if run.thorough else 500)]
    singles = []; owner = []
    for ci, c in enumerate(multi):
        for k, op in enumerate(c.ops):
            if op[0] in (0, 4, 5, 7):          # reason_all_causes (graph / collection / through the wrapper / on a clone)
                singles.append(Case("causal", c.prefix, [op], dict(c.meta))); owner.append((ci, k))
    impl_m, _, _ = d.eval_cases(multi)
    impl_s, _, _ = d.eval_cases(singles)
    n_hist = 0
    for (ci, k), sc, so in zip(owner, singles, impl_s["release"]):
        c = multi[ci]
        try:
            a = c.ints(); top, p = parse_tree(a, 0); calls = parse_calls(a, p)
            segs = split_out([int(t) for t in impl_m["release"][ci].split()], calls)
            a1 = sc.ints(); top1, p1 = parse_tree(a1, 0); calls1 = parse_calls(a1, p1)
            seg1 = split_out([int(t) for t in so.split()], calls1)
        except ValueError:
            continue
        if segs is None or seg1 is None or k >= len(segs): continue
        n_hist += 1
        if segs[k]["res"] != seg1[0]["res"]:
            run.violation({"kind": "property-oracle-failed-on-implementation",
                           "why": f"call {k} returns {segs[k]['res']} on the used model but {seg1[0]['res']} when issued alone on a freshly rebuilt identical model (1 true, 0 false, -1 error, -999 panic)",
                           "case": c.to_json(), "call_index": k, "harness_line": c.line("causal_%d" % c.meta.get("cont", 1)),
                           "fresh_model_line": sc.line("causal_%d" % sc.meta.get("cont", 1)), "outputs": [impl_m["release"][ci], so]})
            return
    run.cov["history_independence_comparisons"] = n_hist
    # assumption / inference / observation collections in all five containers (C18's generator and model)
    cases18, dist18 = c18.gen_cases(run)
    cases18 = cases18[: (6000 if run.thorough else 900)]
    d18 = Differential(run, bins, lambda c: "collections_model_entry", None, check_entry=lambda c: "collections_check_entry",
                       nontrivial=lambda c: c.prefix[2] >= 2)
    for i in range(0, len(cases18), 1000):
        d18.process(cases18[i:i + 1000])
    d18.finish()
    run.cov["collections_cases_over_five_containers"] = len(cases18)
    # rebuilding a model in a graph object that held another one before (clear) / after removals: same answers as a recount
    import props.c11 as c11
    c11.removed_phase(run, d, bins, None)


CHECKS = [chk_repeat, chk_recount]
RULE = ("the same causal items (singletons and nested causaloids) loaded into a slice, Vec, VecDeque, BTreeMap (same iteration order) and HashMap; every CausableReasoning method after "
        "reason_all_causes (ordered containers; each call issued twice = repetition, and once through the wrapping causaloid) or after per-item evaluation (HashMap: order-insensitive "
        "answers, filters compared as id-sorted sets); causal graphs: reason_all_causes, the same on a CLONE of the graph, and again; every model is built twice (rebuild determinism), the ordered containers are compared pairwise, and every reasoning call of a multi-call history is re-issued "
        "alone on a freshly rebuilt identical model (same verdict required). Graphs rebuilt in a cleared graph object or with removed causaloids are judged by C11's recount phase, whose cases run here as well. The assumption / inference / observation collections are compared across the five containers by C18's check, whose cases run "
        "here as well")


def main():
    run = run_property("C12", PROPS, gen_cases, CHECKS, RULE, cross=cross)


_replay = mk_replay("C12", CHECKS)


def replay(path):
    import json
    dj = json.load(open(path))
    if "call_index" not in dj:
        return _replay(path)
    # history-independence finding: run the recorded history and the single call on a fresh model, compare the verdicts
    run = Run("C12"); ensure_driver(); bins = builds(run)
    c = Case.from_json(dj["case"]); k = dj["call_index"]
    sc = Case("causal", c.prefix, [c.ops[k]], dict(c.meta))
    head = "causal_%d" % c.meta.get("cont", 1)
    rc, out, err = run_lines(bins["release"], [c.line(head), sc.line(head)], line_timeout=15)
    a = c.ints(); top, p = parse_tree(a, 0); calls = parse_calls(a, p)
    segs = split_out([int(t) for t in out[0].split()], calls)
    a1 = sc.ints(); top1, p1 = parse_tree(a1, 0); calls1 = parse_calls(a1, p1)
    seg1 = split_out([int(t) for t in out[1].split()], calls1)
    print("used model :", segs[k]["res"], "\nfresh model:", seg1[0]["res"])
    bad = segs[k]["res"] != seg1[0]["res"]
    print("REPRODUCED" if bad else "not reproduced")
    return 1 if bad else 0
