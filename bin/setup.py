#!/usr/bin/env python3
import os, sys
sys.path.insert(0, os.path.dirname(os.path.abspath(__file__)))
from vlib import *
ok, msg = ensure_driver()
print("driver:", "ok" if ok else msg)
rc = 0 if ok else 1
BUILDS = [("ds", (), "release", False)]
try:
    from builds import BUILDS
except ImportError:
    pass
for crate, feats, profile, hook in BUILDS:
    if not os.path.isdir(os.path.join(VERIF, "harness", crate)):
        continue
    path, log = cargo_build(crate, feats, profile, hook, tag=crate + ('-' + '-'.join(feats) if feats else '') + ('-hook' if hook else ''))
    print("cargo", crate, feats, profile, "hook" if hook else "", "->", path or ("FAILED\n" + log))
    if not path:
        rc = 1
sys.exit(rc)
