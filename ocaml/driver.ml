(* Correspondence driver: runs the extracted Coq models.
   stdin : one case per line:  <entry-name> <int> <int> ...
   stdout: one line per case:  <int> <int> ...     (the integer list the entry returns)
   Integers are arbitrary-precision decimals, converted to/from the extracted Z inductive
   without going through OCaml's native int. *)
open Model

(* ---- decimal <-> extracted positive / Z --------------------------------------------------- *)
let rec pos_of_int (i : int) : positive =
  if i = 1 then XH else if i land 1 = 0 then XO (pos_of_int (i lsr 1)) else XI (pos_of_int (i lsr 1))
let z_of_small (i : int) : z = if i = 0 then Z0 else if i > 0 then Zpos (pos_of_int i) else Zneg (pos_of_int (-i))
let z10 = z_of_small 10

let z_of_string (s : string) : z =
  let n = String.length s in
  if n = 0 then failwith "empty int";
  let neg = s.[0] = '-' in
  let start = if neg then 1 else 0 in
  if n - start <= 17 then z_of_small (int_of_string s)
  else begin
    let acc = ref Z0 in
    for i = start to n - 1 do
      let d = Char.code s.[i] - 48 in
      if d < 0 || d > 9 then failwith ("bad int " ^ s);
      acc := Z.add (Z.mul !acc z10) (z_of_small d)
    done;
    if neg then Z.opp !acc else !acc
  end

let rec int_of_pos (p : positive) : int =
  match p with XH -> 1 | XO q -> 2 * int_of_pos q | XI q -> 2 * int_of_pos q + 1
let rec pos_bits (p : positive) : int = match p with XH -> 1 | XO q | XI q -> 1 + pos_bits q

let rec string_of_posz (v : z) : string =
  (* v >= 0 *)
  match v with
  | Z0 -> "0"
  | Zpos p when pos_bits p <= 61 -> string_of_int (int_of_pos p)
  | _ ->
    let q = Z.div v z10 and r = Z.modulo v z10 in
    let rs = (match r with Z0 -> "0" | Zpos p -> string_of_int (int_of_pos p) | Zneg _ -> "?") in
    (match q with Z0 -> rs | _ -> string_of_posz q ^ rs)

let string_of_z (v : z) : string =
  match v with
  | Zneg p -> "-" ^ string_of_posz (Zpos p)
  | _ -> string_of_posz v

(* ---- dispatch ------------------------------------------------------------------------------ *)
let entries : (string * (z list -> z list)) list = Entries.table

let () =
  let tbl = Hashtbl.create 64 in
  List.iter (fun (k, f) -> Hashtbl.replace tbl k f) entries;
  let buf = Buffer.create 65536 in
  (try
    while true do
      let line = input_line stdin in
      let toks = List.rev (List.fold_left (fun acc s -> if s <> "" then s :: acc else acc) [] (String.split_on_char ' ' line)) in
      match toks with
      | [] -> Buffer.add_char buf '\n'
      | name :: args ->
        let f = (try Hashtbl.find tbl name with Not_found -> failwith ("unknown entry " ^ name)) in
        let out = f (List.rev (List.rev_map z_of_string args)) in    (* tail recursive: traces have 10^5 .. 10^6 numbers *)
        let first = ref true in
        List.iter (fun v ->
          if not !first then Buffer.add_char buf ' ';
          first := false;
          Buffer.add_string buf (string_of_z v)) out;
        Buffer.add_char buf '\n';
        if Buffer.length buf > 60000 then (print_string (Buffer.contents buf); Buffer.clear buf)
    done
  with End_of_file -> ());
  print_string (Buffer.contents buf)
